"""Per-property MANIFEST texts (level text, level note, technique)."""
TEXT = {
 'C15': dict(
  technique='typestate analysis over exhaustively enumerated CFG paths + who-may-call over the resolved call graph (LLVM IR)',
  level_text='Every CFG path of every function that calls the injected allocator is enumerated (infeasible ones pruned by constant folding) and run through an ownership automaton (none -> maybe-null -> owned -> transferred|released); the release function\'s two paths and the set of allocation/release call sites over the whole call graph are checked. All obligations are discharged by sound structural rules, so a pass is a proof at the level of the library\'s own code for all inputs and all allocation-failure choices.',
  level_note='Trusted: clang-14 lowering, irfacts, CFG/path walker, parameter release/capture summaries. Assumes callers free only library seeds and the injected allocator behaves like malloc/free. "Fresh memory never assumed zero" is decided by C13\'s initialisation rule, not here.'),
 'C16': dict(
  technique='interprocedural secret-taint summaries + must-pass-through (CFG reachability with wipe calls removed) on LLVM IR',
  level_text='A taint pass (sources: seed secret/checksum fields, externally supplied byte strings, CSPRNG output; propagation through library code and summaries of injected functions) selects every aggregate local that can hold secret-derived data; for each, every path from each tainting instruction to every return must pass a whole-object dep:memzero call. The seed block wipe-before-free is the release-function shape rule. Quantifies over all paths and all inputs.',
  level_note='Not decided: residues in registers/spill slots/scalar locals and the effect of optimisation levels (below IR level); dep:memzero is an opaque call so it cannot be elided. Trusted: clang lowering, points-to, taint summaries of injected functions.'),
 'C18': dict(
  technique='who-may-call allow-list over the resolved call graph in all build configurations + writer-set effect analysis of the dependency table',
  level_text='Decides the structural clauses: every external effect goes through a dependency-table field (no other external callee than memset/memcpy/memcmp/bsearch and time inside the NULL-clock default), libc malloc/free/time appear only as table defaults stored by polyseed_inject, the table is written by polyseed_inject only. The bit-exact clauses (150 secret bits = CSPRNG bytes; injection copies all 8 entries) are added by the bitflow rules when built.',
  level_note='Partial until the bitflow clauses (C18 clauses 1 and 3 in DESIGN.md) are implemented; quality of the injected CSPRNG is out of scope.'),
 'C20': dict(
  technique='effect analysis: inclusion-based points-to resolves every write target; writer sets of mutable globals checked against the setup-only part of the call graph, in all 8 build configurations',
  level_text='A data race needs a write to a location shared between threads. Every store, memset/memcpy and output argument of an external or injected call is resolved to abstract objects; targets must be locals, caller-owned objects or blocks from the injected allocator, and any non-constant global may be written only by functions reachable solely from polyseed_inject / polyseed_enable_features. Together with the external-callee allow-list (no libc function with hidden state) this proves absence of library-level races for all schedules.',
  level_note='Assumes setup happens-before concurrent use and injected functions are thread-safe. Trusted: clang lowering, points-to (field-insensitive, sound for this rule), call graph.'),
}
TEXT['C07'] = dict(
  technique='constant-table analysis over the IR global initialisers (all 10 x 2048 words) against frozen reference data and the reference matching rule; call-site constant check of bsearch',
  level_text='Exhaustive over all languages, indices and word pairs (via sorting): registry membership/order, byte-identity with the pinned word lists, distinctness, NFKD/NFC closure (which lifts from words to every phrase at every position because no word starts with a combining mark and separators are inert starters), strict sortedness under the language\'s reference matching order in both byte signednesses, unambiguity of 4-letter prefixes. This is the table half of "every word decodes to its own index"; the comparator-body half is C08.',
  level_note='Oracle for Unicode normalisation is Python unicodedata. The literal clause "no word is a prefix of another" is false for published BIP-39 English/Spanish (act/actor): enforced for words of >= 4 letters (the only ones that can be abbreviations), the literal count is reported as information. Not decided: that the C comparators implement the reference rule (C08).')
TEXT['C17'] = dict(
  technique='constant-table bound: per-position maxima of NFKD and NFC word lengths summed over 16 positions + separators vs the compiled sizeof(polyseed_str)',
  level_text='The worst case over all 2048^16 index combinations is the sum of per-position maxima, computed exactly from the tables in the IR for both the decomposed form (internal temporary written by the unguarded writer) and the composed form (caller\'s buffer) and compared with the size the typedef is compiled with: a complete proof of the inequality for every seed, coin and language.',
  level_note='Uses the unrestricted per-position maximum (sound; tight within one word). Trusted: IR constant extraction, Python unicodedata. The link "the writer is called exactly 16+15 times on a polyseed_str" and the returned-length clause are structural/bitflow rules (added when built). An injected NFC that lies about its length is out of scope.')
for _p in ('C01', 'C02', 'C03', 'C04', 'C05', 'C06', 'C09', 'C10', 'C12', 'C13'):
    TEXT[_p] = dict(technique='bit-provenance abstract interpretation of LLVM IR (affine forms over named input bits, trace partitioning with exact affine merge) + table rules',
                    level_text='see DESIGN.md section 4 (to be refined)', level_note='see DESIGN.md section 4')
NOT_APPLICABLE = {}
