"""Lazy per-run artefacts shared by the rules (programs per configuration, tables, AST facts)."""
from . import frontend, ir

ALL_CONFIGS = ['NsS', 'NsH', 'NuS', 'NuH', 'DsS', 'DsH', 'DuS', 'DuH']


class Ctx:
    def __init__(self, tier):
        self.tier = tier
        self._prog = {}
        self._tables = None
        self._ast = {}

    def prog(self, cfg='NsS'):
        if cfg not in self._prog:
            self._prog[cfg] = ir.Program(frontend.build_module(cfg))
        return self._prog[cfg]

    def configs(self, kind):
        """kind: 'effect' (all 8 in thorough), 'path' (N/D x s/u in thorough)"""
        if self.tier == 'quick':
            return ['NsS']
        if kind == 'effect':
            return ALL_CONFIGS
        return ['NsS', 'NuS', 'DsS', 'DuS']

    def tables(self):
        if self._tables is None:
            from . import tables
            self._tables = tables.Tables(self.prog('NsS'))
        return self._tables


# Public API names (include/polyseed.h). These are the library's stable external interface.
SETUP_FUNCS = ('polyseed_inject', 'polyseed_enable_features')

# external functions the library may call directly, and which of their pointer arguments they write through
EXTERNAL_ALLOWED = {
    'memset': {'writes': [0], 'cfg': 'any'},
    'memcpy': {'writes': [0], 'cfg': 'any'},
    'memcmp': {'writes': [], 'cfg': 'any'},
    'bsearch': {'writes': [], 'cfg': 'any'},
    'time': {'writes': [0], 'cfg': 'any', 'only_in': 'stdlib_time'},
    'strcmp': {'writes': [], 'cfg': 'D'},          # debug self-test only
    '__assert_fail': {'writes': [], 'cfg': 'D'},   # assert()
}
INTRINSIC_WRITES = {'llvm.memset': [0], 'llvm.memcpy': [0], 'llvm.memmove': [0]}
# dependency-table entries: which arguments are written through by the injected function
DEP_WRITES = {'randbytes': [0], 'pbkdf2_sha256': [5], 'memzero': [0], 'u8_nfc': [1], 'u8_nfkd': [1],
              'time': [], 'alloc': [], 'free': []}
