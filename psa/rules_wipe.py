"""C16: secret-bearing temporaries are wiped through dep:memzero on every exit; seed blocks wiped before release."""
from .frontend import AnalysisBroken
from .taint import Taint
from .ir import base_name, strip_casts, DATA_STRUCT
from .paths import feasible_walks


def wiper_summaries(P):
    """(function, argno) -> size: function always calls dep:memzero(param+0, const size) before returning"""
    out = {}
    for f in P.defined.values():
        for i, t in P.calls(f):
            if t == ('dep', 'memzero'):
                v, off = strip_casts(f, i.ops[0])
                if v['k'] == 'a' and off == 0 and i.ops[1]['k'] == 'c':
                    entry = f.blocks[0][0]
                    if f.reach_ret_avoiding(entry, {i.id}, from_after=False) is None:
                        out[(f.name, v['n'])] = i.ops[1]['v']
    return out


def wipes(ctx, rep, cfgs=None):
    for cfg in cfgs or ctx.configs('path'):
        P = ctx.prog(cfg); pts = P.points_to()
        if cfg not in rep.configs: rep.configs.append(cfg)
        T = Taint(P)
        wipers = wiper_summaries(P)
        cg = P.callgraph()
        def reach(name, memo={}):
            key = (cfg, name)
            if key not in memo:
                memo[key] = P.reachable_from([name])
            return memo[key]

        rep.rule('WIPE-1', 'secret-taint pass: every aggregate local (array/struct) that may receive secret-derived data '
                 '(seed secret/checksum, phrase, password, mask, word indices, CSPRNG output) is a secret-bearing temporary')
        locs = T.secret_locals()
        rep.instances(len(locs), 6, 'secret-bearing temporaries')
        rep.info.setdefault('secret_temporaries', {})[cfg] = ['%s.%s[%d bytes]' % (base_name(f.name), a.d.get('var', '?'), a.d['alloc_size']) for f, a in locs]

        rep.rule('WIPE-2', 'for each secret-bearing temporary T of function f: on every CFG path from any instruction that may '
                 'write secret data into T to any return of f there is a later call dep:memzero(&T+0, sizeof T) (directly, or '
                 'through a helper that always makes that call); a memset or zero store does not count')
        for f, a in locs:
            obj = ('alloca', f.name, a.id)
            tin = T.taint_insts.get(obj, set())
            # tainting points inside f
            points = []
            for i in f.all_insts():
                if (f.name, i.id) in tin:
                    points.append(i)
                elif i.op == 'call' and not P.is_dbg(i):
                    t = P.call_target(i)
                    callees = []
                    if t[0] == 'direct' and t[1] in P.defined:
                        callees = [t[1]]
                    elif t[0] == 'indirect':
                        callees = [o[1] for o in pts.of(f, t[1]) if o[0] == 'func' and o[1] in P.defined]
                    for c in callees:
                        r = reach(c)
                        if any(fn in r for (fn, _) in tin):
                            points.append(i); break
            # wipe instructions for T inside f
            wipe_ids = set()
            for i, t in P.calls(f):
                if t == ('dep', 'memzero'):
                    v, off = strip_casts(f, i.ops[0])
                    if v == {'k': 'i', 'id': a.id} and off == 0 and i.ops[1]['k'] == 'c' and i.ops[1]['v'] == a.d['alloc_size']:
                        wipe_ids.add(i.id)
                elif t[0] == 'direct' and t[1] in P.defined:
                    for k, arg in enumerate(i.ops):
                        if (t[1], k) in wipers and wipers[(t[1], k)] == a.d['alloc_size']:
                            v, off = strip_casts(f, arg)
                            if v == {'k': 'i', 'id': a.id} and off == 0:
                                wipe_ids.add(i.id)
            var = a.d.get('var', '#%d' % a.id)
            cons = '%s: local %s' % (base_name(f.name), var)
            if not points:
                raise AnalysisBroken('tainted local %s has no tainting instruction in its own function' % cons)
            for p in points:
                path = f.reach_ret_avoiding(p, wipe_ids)
                rep.check(path is None,
                          'after %s (which may put secret data into `%s`, %d bytes) every path to a return passes '
                          'dep:memzero(&%s, %d)' % (p.loc, var, a.d['alloc_size'], var, a.d['alloc_size']),
                          p.loc, cons,
                          detail={'tainted_at': p.loc, 'unwiped_exit_path_blocks': path,
                                  'exit': f.blocks[path[-1]][-1].loc if path else None,
                                  'wipes_found': sorted(f.insts[w].loc for w in wipe_ids)},
                          sample={'function': f.name, 'local': var, 'taint_point': p.loc, 'wipes': sorted(f.insts[w].loc for w in wipe_ids)},
                          key='WIPE-2|%s|%s' % (base_name(f.name), var))

        rep.rule('WIPE-3', 'every dep:memzero call covers exactly one whole object from its base: (address of a local, its '
                 'allocated size) or (a seed pointer, sizeof(polyseed_data)); no partial or offset wipes')
        n = 0
        for f in P.defined.values():
            for i, t in P.calls(f):
                if t != ('dep', 'memzero'): continue
                n += 1
                v, off = strip_casts(f, i.ops[0])
                size = i.ops[1]['v'] if i.ops[1]['k'] == 'c' else None
                ok = False
                if off == 0 and size is not None:
                    objs = pts.of(f, i.ops[0])
                    def osize(o):
                        if o[0] == 'alloca': return P.defined[o[1]].insts[o[2]].d['alloc_size']
                        if o[0] in ('heap', 'ext'): return P.structs[DATA_STRUCT]['size']
                        return None
                    ok = bool(objs) and all(osize(o) == size for o in objs)
                rep.check(ok, 'memzero at %s wipes a whole object' % i.loc, i.loc, f.name,
                          detail={'size': size, 'offset': off}, sample={'site': i.loc, 'size': size})
        rep.instances(n, 3, 'dep:memzero call sites')

        rep.rule('WIPE-4', 'no writable static storage receives secret-derived data')
        bad = [o for o in T.to if o[0] == 'global']
        rep.check(not bad, 'no tainted global', str(bad), str(bad))
