"""C16: secret-bearing temporaries are wiped through dep:memzero on every exit; seed blocks wiped before release."""
from .frontend import AnalysisBroken
from .taint import Taint
from .ir import const_of, base_name, strip_casts, DATA_STRUCT
from .paths import feasible_walks


def wiper_summaries(P):
    """(function, argno) -> size: function always calls dep:memzero(param+0, const size) before returning"""
    out = {}
    for f in P.defined.values():
        for i, t in P.calls(f):
            if t == ('dep', 'memzero'):
                v, off = strip_casts(f, i.ops[0])
                if v['k'] == 'a' and off == 0 and i.ops[1]['k'] == 'c':
                    entry = f.blocks[0][0]
                    if f.reach_ret_avoiding(entry, {i.id}, from_after=False) is None:
                        out[(f.name, v['n'])] = i.ops[1]['v']
    return out


def wiped_at_returns(f, p, wipes_T, taint_ids, N):
    """must-dataflow: mask of bytes of T wiped on every path from just after p to each return (a later tainting instruction resets the mask);
    returns (the meet over all reachable returns, location of the worst return) - (None, None) if no return is reachable"""
    full = (1 << N) - 1
    def run_block(b, k0, mask):
        outs = []
        for i in f.blocks[b][k0:]:
            if i.id in taint_ids: mask = 0
            if i.id in wipes_T:
                o_, n_ = wipes_T[i.id]
                mask |= ((1 << n_) - 1) << o_
            if i.op == 'ret':
                return mask, ('ret', i)
            if i.op == 'unreachable' or (i.op == 'call' and i.get('noreturn')):
                return None, None
        return mask, None
    IN = {}
    worst = None; wloc = None
    m, r = run_block(p.bb, p.idx + 1, 0)
    work = []
    def emit(b, m, r):
        nonlocal worst, wloc
        if m is None: return
        if r is not None:
            if worst is None or (m & worst) != worst:
                if worst is None or bin(m).count('1') < bin(worst).count('1'): wloc = r[1].loc
                worst = m if worst is None else (worst & m)
            return
        for s_ in f.succs[b]:
            old = IN.get(s_)
            new = m if old is None else (old & m)
            if new != old:
                IN[s_] = new; work.append(s_)
    emit(p.bb, m, r)
    while work:
        b = work.pop()
        m, r = run_block(b, 0, IN[b])
        emit(b, m, r)
    return worst, wloc


def wipes(ctx, rep, cfgs=None):
    for cfg in cfgs or ctx.configs('path'):
        P = ctx.prog(cfg); pts = P.points_to()
        if cfg not in rep.configs: rep.configs.append(cfg)
        T = Taint(P)
        wipers = wiper_summaries(P)
        cg = P.callgraph()
        def reach(name, memo={}):
            key = (cfg, name)
            if key not in memo:
                memo[key] = P.reachable_from([name])
            return memo[key]

        rep.rule('WIPE-1', 'secret-taint pass: every aggregate local (array/struct) that may receive secret-derived data '
                 '(seed secret/checksum, phrase, password, mask, word indices, CSPRNG output) is a secret-bearing temporary')
        locs = T.secret_locals()
        rep.instances(len(locs), 6, 'secret-bearing temporaries')
        rep.info.setdefault('secret_temporaries', {})[cfg] = ['%s.%s[%d bytes]' % (base_name(f.name), a.d.get('var', '?'), a.d['alloc_size']) for f, a in locs]

        rep.rule('WIPE-2', 'for each secret-bearing temporary T of function f: from any instruction that may write secret data into T, the dep:memzero '
                 'calls (direct, or through a helper that always makes that call) that lie on EVERY path to a return of f together cover every byte '
                 'of T (one whole-object wipe, or member-wise wipes of a struct of temporaries); a memset or zero store does not count')
        for f, a in locs:
            obj = ('alloca', f.name, a.id)
            tin = T.taint_insts.get(obj, set())
            # tainting points inside f
            points = []
            for i in f.all_insts():
                if (f.name, i.id) in tin:
                    points.append(i)
                elif i.op == 'call' and not P.is_dbg(i):
                    t = P.call_target(i)
                    callees = []
                    if t[0] == 'direct' and t[1] in P.defined:
                        callees = [t[1]]
                    elif t[0] == 'indirect':
                        callees = [o[1] for o in pts.of(f, t[1]) if o[0] == 'func' and o[1] in P.defined]
                    for c in callees:
                        r = reach(c)
                        if any(fn in r for (fn, _) in tin):
                            points.append(i); break
            # wipe instructions for (parts of) T inside f: call -> (offset, length)
            wipes_T = {}
            N = a.d['alloc_size']
            for i, t in P.calls(f):
                if t == ('dep', 'memzero'):
                    v, off = strip_casts(f, i.ops[0])
                    if v == {'k': 'i', 'id': a.id} and off is not None and i.ops[1]['k'] == 'c' and 0 <= off and off + i.ops[1]['v'] <= N:
                        wipes_T[i.id] = (off, i.ops[1]['v'])
                elif t[0] == 'direct' and t[1] in P.defined:
                    for k, arg in enumerate(i.ops):
                        if (t[1], k) in wipers:
                            v, off = strip_casts(f, arg)
                            if v == {'k': 'i', 'id': a.id} and off is not None and 0 <= off and off + wipers[(t[1], k)] <= N:
                                wipes_T[i.id] = (off, wipers[(t[1], k)])
            var = a.d.get('var', '#%d' % a.id)
            cons = '%s: local %s' % (base_name(f.name), var)
            if not points:
                raise AnalysisBroken('tainted local %s has no tainting instruction in its own function' % cons)
            taint_ids = set(q.id for q in points)
            for p in points:
                # forward must-dataflow from p: which bytes of T have been wiped (since the last tainting instruction) on EVERY path reaching each return
                worst, retloc = wiped_at_returns(f, p, wipes_T, taint_ids, N)
                missing = bin(((1 << N) - 1) & ~worst).count('1') if worst is not None else 0
                rep.check(missing == 0,
                          'after %s (which may put secret data into `%s`, %d bytes) every path to a return passes dep:memzero calls that together cover all %d bytes'
                          % (p.loc, var, N, N), p.loc, cons,
                          detail={'tainted_at': p.loc, 'bytes_possibly_unwiped_at_a_return': missing, 'return': retloc,
                                  'wipes_found': sorted('%s [%d,+%d)' % (f.insts[w_].loc, wipes_T[w_][0], wipes_T[w_][1]) for w_ in wipes_T)},
                          sample={'function': f.name, 'local': var, 'taint_point': p.loc, 'wipes': sorted(f.insts[w_].loc for w_ in wipes_T)},
                          key='WIPE-2|%s|%s' % (base_name(f.name), var))

        rep.rule('WIPE-3', 'every dep:memzero call has a constant offset and a constant length that stay inside the object it targets (a local or one of its '
                 'members) or is (a seed pointer, sizeof(polyseed_data)); never a data-dependent length')
        n = 0
        for f in P.defined.values():
            for i, t in P.calls(f):
                if t != ('dep', 'memzero'): continue
                n += 1
                v, off = strip_casts(f, i.ops[0])
                size = i.ops[1]['v'] if i.ops[1]['k'] == 'c' else None
                if size is None:
                    # a length parameter: the constant every call site passes
                    cs = set(const_of(v_) for _, v_, _ in P.leaves(f, i.ops[1]))
                    if len(cs) == 1 and None not in cs: size = cs.pop()
                ok = False
                if off is not None and size is not None and off >= 0:
                    objs = pts.of(f, i.ops[0])
                    def fits(o):
                        if o[0] == 'alloca': return off + size <= P.defined[o[1]].insts[o[2]].d['alloc_size']
                        if o[0] in ('heap', 'ext'): return off == 0 and size == P.structs[DATA_STRUCT]['size']
                        return False
                    ok = bool(objs) and all(fits(o) for o in objs)
                rep.check(ok, 'memzero at %s wipes a constant range inside its object' % i.loc, i.loc, f.name,
                          detail={'size': size, 'offset': off}, sample={'site': i.loc, 'size': size})
        rep.instances(n, 3, 'dep:memzero call sites')

        rep.rule('WIPE-4', 'no writable static storage receives secret-derived data')
        bad = [o for o in T.to if o[0] == 'global']
        rep.check(not bad, 'no tainted global', str(bad), str(bad))
