"""Cached drivers of the string-automaton abstraction (psa/strauto.py). Each returns a Result whose status is
   'ok'         the function agrees with its reference automaton on all inputs
   'bad'        disagreements (list in .bad)
   'found'      an unsafe access / illegal write (exception in .exc)
   'imprecise'  outside the abstraction: not decided (reason in .why)
The structural idiom rules consult these results and stand down where the semantic analysis decided."""
from . import strauto as SA
from .ir import base_name


class Result:
    def __init__(self, status, ex=None, bad=None, exc=None, why=None, extra=None):
        self.status = status; self.ex = ex; self.bad = bad or []; self.exc = exc; self.why = why; self.extra = extra or {}

    @property
    def decided(self):
        return self.status != 'imprecise'


def _cache(ctx):
    if not hasattr(ctx, '_e7'): ctx._e7 = {}
    return ctx._e7


def comparator(ctx, cfg, P, wname, hp, ha):
    """wrapper wname against CmpMonitor(hp, ha); tries the signed and the unsigned byte order"""
    key = ('cmp', cfg, wname, hp, ha)
    C = _cache(ctx)
    if key in C: return C[key]
    f = P.defined[wname]
    results = {}
    for signed in (True, False):
        ex = SA.Explorer(P, sat=SA.saturation_bound(P, [wname]), max_states=15000, max_seconds=25)
        st = SA.State()
        alpha = SA.alphabet_for(P, [wname], eq=(0,), order=(128,))
        st.tapes = {'K': SA.Tape('K', alpha), 'E': SA.Tape('E', alpha)}
        st.mem = {'argA': {'#size': 8, 0: ('p', 'K', 0)}, 'argB': {'#size': 8, 0: ('p', 'E', 0)}}
        st.mon = SA.CmpMonitor(hp, ha, signed, 4)
        st.frames = [SA.Frame(f, [('p', 'argA', 0), ('p', 'argB', 0)])]
        bad = []
        def on_ret(s_, ret, bad=bad):
            if ret is None or ret[0] != 'c':
                bad.append({'problem': 'result is not a number'}); return
            r = SA.sval(ret[1], ret[2]); sg = (r > 0) - (r < 0)
            if s_.mon.verdict is None or sg != s_.mon.verdict:
                bad.append({'returned_sign': sg, 'reference': s_.mon.verdict, 'because': s_.mon.why, 'strings_by_class': SA.witness(s_), 'last_choices': s_.path[-6:]})
        try:
            ex.run(st, on_ret)
            results[signed] = Result('ok' if not bad else 'bad', ex=ex, bad=bad, extra={'order': 'signed' if signed else 'unsigned'})
        except SA.Found as e:
            results[signed] = Result('found', ex=ex, exc=e)
        except SA.Imprecise as e:
            results[signed] = Result('imprecise', ex=ex, why=str(e))
        if results[signed].status == 'ok': break
    vals = list(results.values())
    r = next((v for v in vals if v.status == 'ok'), None) or next((v for v in vals if v.status == 'found'), None)
    if r is None:
        if any(v.status == 'imprecise' for v in vals): r = next(v for v in vals if v.status == 'imprecise')
        else: r = min(vals, key=lambda v: len(v.bad))
    C[key] = r
    return r


def tokeniser(ctx, cfg, P, role):
    key = ('tok', cfg, role.fn.name)
    C = _cache(ctx)
    if key in C: return C[key]
    f = role.fn
    args = []
    ok = True
    for n, prm in enumerate(f.params):
        if n == role.args['buf']: args.append(('p', 'T', 0))
        elif n == role.args['words']: args.append(('p', 'words', 0))
        elif role.consts.get(n) is not None: args.append(SA.C(role.consts[n], prm.get('bits') or 32))
        else: args.append(('u',)); ok = False
    ex = SA.Explorer(P, sat=SA.saturation_bound(P, [f.name]) + 16, max_states=20000, max_seconds=25)
    st = SA.State()
    st.tapes = {'T': SA.Tape('T', SA.alphabet_for(P, [f.name], eq=(0, 32)))}
    st.mem = {'words': {'#size': 128}}
    st.mon = SA.TokMonitor(16)
    st.frames = [SA.Frame(f, args)]
    bad = []
    def on_ret(s_, ret, bad=bad):
        exp = s_.mon.expected()
        r = SA.sval(ret[1], ret[2]) if ret and ret[0] == 'c' else None
        n = min(exp, 16) if exp is not None else 0
        if r != exp: bad.append({'returned': r, 'reference': exp, 'buffer_by_class': SA.witness(s_)['T'], 'last_choices': s_.path[-5:]})
        elif s_.mon.nstored < n: bad.append({'problem': 'words[%d] not set' % s_.mon.nstored, 'tokens': exp, 'buffer_by_class': SA.witness(s_)['T']})
        elif s_.mon.nwritten != min(s_.mon.nsep, 16): bad.append({'problem': '%d of the %d separators ending reported tokens were terminated' % (s_.mon.nwritten, min(s_.mon.nsep, 16)), 'buffer_by_class': SA.witness(s_)['T']})
    try:
        ex.run(st, on_ret)
        r = Result('ok' if not bad else 'bad', ex=ex, bad=bad)
    except SA.Found as e:
        r = Result('found', ex=ex, exc=e)
    except SA.Imprecise as e:
        r = Result('imprecise', ex=ex, why=str(e))
    C[key] = r
    return r


def lazy(ctx, cfg, P, role, size):
    key = ('lazy', cfg, role.fn.name)
    C = _cache(ctx)
    if key in C: return C[key]
    f = role.fn
    args = []
    for n, prm in enumerate(f.params):
        if n == role.args['src']: args.append(('p', 'T', 0))
        elif n == role.args['out']: args.append(('p', 'norm', 0))
        else:
            c = role_const(P, f, n)
            args.append(SA.C(c, prm.get('bits') or 64) if c is not None else ('u',))
    r = None
    for exact in (False, True):
        # second attempt for index-form code: exact positions on inputs of up to size+2 bytes (the reference reads nothing beyond byte size-1, and a read
        # beyond the forced terminator would be reported, so longer inputs behave like their prefix)
        ex = SA.Explorer(P, sat=None, max_states=40000 if not exact else 4000000, max_seconds=40 if not exact else 90, exact=exact)
        st = SA.State()
        st.tapes = {'T': SA.Tape('T', SA.alphabet_for(P, [f.name], eq=(0,), order=(128,)), maxlen=(size + 2) if exact else None)}
        st.mem = {'norm': {'#size': size}}
        st.mon = SA.LazyMonitor(size)
        st.frames = [SA.Frame(f, list(args))]
        r = _lazy_run(ex, st, size)
        r.extra['exact_positions'] = exact
        if r.status != 'imprecise': break
    C[key] = r
    return r


def _lazy_run(ex, st, size):
    bad = []
    def on_ret(s_, ret, bad=bad):
        m = s_.mon; w_ = SA.witness(s_)['T'][:120]
        if m.expect_call:
            if not (m.called == 1 and ret == ('sym', 'normaliser.len')):
                bad.append({'problem': 'a non-ASCII byte within the first %d bytes: the injected normaliser must be called once and its result returned' % (size - 1), 'calls': m.called, 'returned': str(ret)[:60], 'string_by_class': w_})
        else:
            L = m.len if m.len is not None else size - 1
            L = min(L, size - 1)
            r = SA.sval(ret[1], ret[2]) if ret and ret[0] == 'c' else None
            if m.called or r != L or m.ncopied != L or m.term != L:
                bad.append({'problem': 'pure-ASCII input of length %d: copied %d byte(s), terminator at %s, returned %s, normaliser calls %d' % (L, m.ncopied, m.term, r, m.called), 'string_by_class': w_})
    try:
        ex.run(st, on_ret)
        r = Result('ok' if not bad else 'bad', ex=ex, bad=bad)
    except SA.Found as e:
        r = Result('found', ex=ex, exc=e)
    except SA.Imprecise as e:
        r = Result('imprecise', ex=ex, why=str(e))
    return r


def role_const(P, f, n):
    """the constant every direct call site of f passes for parameter n (None if they differ / are not constants)"""
    from .ir import const_of
    val = 'unset'
    for g in P.defined.values():
        for i, t in P.calls(g):
            if t == ('direct', f.name) and n < len(i.ops):
                c = const_of(i.ops[n])
                if c is None: return None
                if val == 'unset': val = c
                elif val != c: return None
    return None if val == 'unset' else val


WRITER_MAXLEN = 48      # longer than every word and separator of the tables (TAB-2 pins them; the longest decomposed Korean word has 33 bytes)


def writer(ctx, cfg, P, f, cursor_arg, src_arg):
    """the phrase writer `void write(char** pos, const char* str)`: copies str up to its NUL to *pos and advances *pos by that length"""
    key = ('writer', cfg, f.name)
    C = _cache(ctx)
    if key in C: return C[key]
    idx_form = isinstance(cursor_arg, tuple)
    r = None
    for base in ((0, 3) if idx_form else (0,)):
        # (index form `new_len = put(buf, len, src)`: decided for the start lengths 0 and 3; the function uses the length only as index and counter)
        args = [('u',)] * len(f.params)
        args[src_arg] = ('p', 'T', 0)
        if idx_form:
            args[cursor_arg[1]] = ('p', 'out', 0); args[cursor_arg[2]] = SA.C(base, f.params[cursor_arg[2]].get('bits') or 64)
        else:
            args[cursor_arg] = ('p', 'cursor', 0)
        ex = SA.Explorer(P, sat=None, max_states=20000, max_seconds=20, exact=True)
        st = SA.State()
        st.tapes = {'T': SA.Tape('T', SA.alphabet_for(P, [f.name], eq=(0,)), maxlen=WRITER_MAXLEN)}
        st.mem = {'cursor': {'#size': 8, 0: ('p', 'out', 0)}, 'out': {'#size': 1 << 20}}
        st.mon = SA.WriterMonitor(); st.mon.base = base
        st.frames = [SA.Frame(f, list(args))]
        bad = []
        def on_ret(s_, ret, bad=bad, base=base):
            m = s_.mon
            if idx_form: cur = ('p', 'out', SA.sval(ret[1], ret[2])) if ret and ret[0] == 'c' else None
            else: cur = s_.mem['cursor'].get(0)
            if m.len is None: bad.append({'problem': 'returns before reaching the end of the source string', 'string_by_class': SA.witness(s_)['T'][:80]})
            elif m.ncopied != m.len or cur != ('p', 'out', base + m.len):
                bad.append({'problem': 'source of length %d: %d byte(s) copied, cursor / returned length left at %s' % (m.len, m.ncopied, cur), 'string_by_class': SA.witness(s_)['T'][:80]})
        try:
            ex.run(st, on_ret)
            r = Result('ok' if not bad else 'bad', ex=ex, bad=bad)
        except SA.Found as e:
            r = Result('found', ex=ex, exc=e)
        except SA.Imprecise as e:
            r = Result('imprecise', ex=ex, why=str(e))
        if r.status != 'ok': break
    C[key] = r
    return r
