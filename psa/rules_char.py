"""C19: every promotion of a plain-char value to a wider integer type is classified by its consumer (clang AST, type-resolved)."""
import json, os, subprocess
from concurrent.futures import ThreadPoolExecutor
from . import frontend
from .frontend import AnalysisBroken


def ast_units(nd='N'):
    db = frontend.get_db()['S']
    root = frontend.repo_root()
    out = {}
    def one(item):
        rel, flags = item
        # language tables contain no expressions on char values: skip units without function bodies cheaply by size of text
        src = open(os.path.join(root, rel), encoding='utf-8', errors='replace').read()
        if '{' in src and ('(' in src) and rel.startswith('src/lang_'):
            return rel, None
        fl = [a for a in flags if a != '-DNDEBUG' and not a.startswith('-O')]
        cmd = ['clang-14'] + fl + (['-DNDEBUG'] if nd == 'N' else ['-UNDEBUG']) + ['-w', '-fsyntax-only', '-Xclang', '-ast-dump=json', os.path.join(root, rel)]
        p = subprocess.run(cmd, stdout=subprocess.PIPE, stderr=subprocess.PIPE, cwd=root)
        if p.returncode != 0:
            raise AnalysisBroken('clang AST dump failed for %s: %s' % (rel, p.stderr[-500:]))
        return rel, json.loads(p.stdout)
    with ThreadPoolExecutor(max_workers=8) as ex:
        for rel, ast in ex.map(one, sorted(db.items())):
            out[rel] = ast
    return out


def canon(t):
    q = t.get('desugaredQualType') or t.get('qualType') or ''
    q = q.replace('const ', '').replace('volatile ', '').strip()
    return q


def is_plain_char(t):
    return canon(t) == 'char'


class Walker:
    def __init__(self, root):
        self.root = os.path.realpath(root)
        self.file = None; self.line = None
        self.sites = []      # promotion sites: dict(file,line,kind,detail,func)
        self.func = None
        self.enums = {}      # EnumConstantDecl id -> value

    def upd(self, node):
        for key in ('loc',):
            l = node.get(key) or {}
            for sub in (l, l.get('expansionLoc') or {}):
                pass
        rng = node.get('range', {}).get('begin', {})
        for l in (rng.get('expansionLoc') or rng, ):
            if 'file' in l: self.file = l['file']
            if 'line' in l: self.line = l['line']
        l = node.get('loc') or {}
        l = l.get('expansionLoc') or l
        if 'file' in l: self.file = l['file']
        if 'line' in l: self.line = l['line']

    def in_repo(self):
        return self.file is not None and os.path.realpath(self.file).startswith(self.root + os.sep)

    def relfile(self):
        return os.path.relpath(os.path.realpath(self.file), self.root)

    def walk(self, node, parents):
        if not isinstance(node, dict):
            return
        self.upd(node)
        k = node.get('kind')
        if k == 'EnumDecl':
            nxt = 0
            for c in node.get('inner', []) or []:
                if c.get('kind') != 'EnumConstantDecl': continue
                val = None
                for cc in c.get('inner', []) or []:
                    v_ = self._const(cc)
                    if v_ is not None: val = v_
                if val is None: val = nxt
                self.enums[c.get('id')] = val; nxt = val + 1
        if k == 'FunctionDecl':
            self.func = node.get('name')
        if k == 'FieldDecl' and node.get('isBitfield') and self.in_repo() and is_plain_char(node.get('type', {})):
            self.sites.append(dict(file=self.relfile(), line=self.line, func='struct field ' + str(node.get('name')), kind='f',
                                   detail='bit-field of plain char type: its signedness follows the signedness of plain char (a 1-bit field holds -1 or 1)'))
        if k == 'ImplicitCastExpr' and node.get('castKind') == 'IntegralCast' and self.in_repo():
            inner = (node.get('inner') or [{}])[0]
            if is_plain_char(inner.get('type', {})) and not is_plain_char(node.get('type', {})):
                self.classify(node, parents)
        if k == 'CStyleCastExpr' and self.in_repo():
            inner = (node.get('inner') or [{}])[0]
            src = inner
            while src.get('kind') == 'ImplicitCastExpr' and src.get('castKind') == 'LValueToRValue':
                src = (src.get('inner') or [{}])[0]
            if is_plain_char(inner.get('type', {})) and canon(node.get('type', {})) not in ('char',):
                dst = canon(node.get('type', {}))
                ok = dst in ('unsigned char', 'signed char', 'uint8_t', 'int8_t')
                if ok:
                    self.sites.append(dict(file=self.relfile(), line=self.line, func=self.func, kind='c', detail='explicit cast of plain char to %s' % dst))
                elif dst in ('int', 'unsigned int', 'long', 'unsigned long', 'short', 'unsigned short', 'long long', 'unsigned long long', 'size_t', 'uint16_t', 'uint32_t', 'uint64_t', 'int16_t', 'int32_t', 'int64_t'):
                    # the promotion the compiler would insert anyway, written out: judged by its consumer like an implicit one
                    self.classify(node, parents)
                else:
                    self.sites.append(dict(file=self.relfile(), line=self.line, func=self.func, kind='f', detail='explicit cast of plain char to %s' % dst))
        for c in node.get('inner', []) or []:
            self.walk(c, parents + [node])

    def classify(self, cast, parents):
        # find the consuming expression: skip ParenExpr / further implicit casts
        p = None
        child = cast
        for q in reversed(parents):
            if q.get('kind') in ('ParenExpr',) or (q.get('kind') == 'ImplicitCastExpr' and q.get('castKind') in ('IntegralCast', 'NoOp')):
                child = q; continue
            if q.get('kind') == 'ConditionalOperator' and len(q.get('inner') or []) == 3 and not (q['inner'][0] is child or self._contains(q['inner'][0], cast)):
                child = q; continue       # the promoted value is one of the two results of ?: - its consumer is the consumer of the whole expression
            p = q; break
        site = dict(file=self.relfile(), line=self.line, func=self.func)
        if p is None:
            site.update(kind='f', detail='promotion with no consumer'); self.sites.append(site); return
        pk = p.get('kind')
        if pk == 'BinaryOperator':
            op = p.get('opcode')
            sides = p.get('inner', [])
            other = sides[1] if sides[0] is child or self._contains(sides[0], cast) else sides[0]
            oc = self._const(other)
            other_char = self._promoted_plain_char(other)
            other_src = self._promoted_src_type(other)
            if op in ('==', '!='):
                if other_char:
                    site.update(kind='a', detail='%s between two plain char values' % op)
                elif oc is not None and 0 <= oc <= 127:
                    site.update(kind='a', detail='%s against constant %d' % (op, oc))
                elif oc is not None:
                    site.update(kind='f', detail='%s of plain char against constant %d outside 0..127: the result depends on char signedness' % (op, oc))
                else:
                    site.update(kind='f', detail='%s of plain char against a value of type %s: both are promoted to int and non-ASCII bytes compare '
                                                 'differently under signed and unsigned char' % (op, other_src or canon(other.get('type', {}))))
            elif op in ('<', '>', '<=', '>='):
                if oc is not None:
                    site.update(kind='d', detail='relational %s of plain char against constant %d: under unsigned char %s' % (
                        op, oc, 'it is constantly false/true for non-ASCII bytes' ))
                elif other_char:
                    site.update(kind='e', detail='relational %s between two plain char values (allowed under the byte-order table condition)' % op)
                else:
                    site.update(kind='f', detail='relational %s of plain char against non-char value' % op)
            elif op == '-' and other_char:
                site.update(kind='e', detail='difference of two plain char values (its sign follows the byte order: allowed under the byte-order table condition)')
            elif op == '&' and oc is not None and 0 <= oc <= 0xFF:
                site.update(kind='c', detail='masked with constant 0x%x' % oc)
            elif op in ('=',):
                site.update(kind='b', detail='assignment')
            else:
                site.update(kind='f', detail='plain char used in arithmetic/bitwise operator %s' % op)
        elif pk in ('VarDecl',):
            site.update(kind='f', detail='plain char widened into variable %s of type %s' % (p.get('name'), canon(p.get('type', {}))))
        elif pk == 'CallExpr':
            site.update(kind='f', detail='plain char passed as a wider integer argument')
        elif pk == 'ArraySubscriptExpr':
            site.update(kind='f', detail='plain char used as array index')
        elif pk in ('SwitchStmt', 'CaseStmt'):
            site.update(kind='f', detail='switch on plain char')
        elif pk in ('ReturnStmt',):
            site.update(kind='f', detail='plain char returned as wider integer')
        elif pk in ('CompoundAssignOperator',):
            site.update(kind='f', detail='plain char in compound assignment %s' % p.get('opcode'))
        elif pk in ('UnaryOperator',) and p.get('opcode') == '!':
            site.update(kind='a', detail='logical not (comparison with 0)')
        elif pk in ('IfStmt', 'WhileStmt', 'ForStmt', 'DoStmt', 'ConditionalOperator'):
            site.update(kind='a', detail='truth test (comparison with 0)')
        else:
            site.update(kind='f', detail='plain char promoted in %s' % pk)
        self.sites.append(site)

    def _contains(self, n, target):
        if n is target: return True
        return any(self._contains(c, target) for c in n.get('inner', []) or [])

    def _strip(self, n):
        while n.get('kind') in ('ParenExpr', 'ImplicitCastExpr', 'ConstantExpr') and n.get('inner'):
            if n.get('kind') == 'ImplicitCastExpr' and n.get('castKind') not in ('IntegralCast', 'NoOp', 'LValueToRValue'):
                break
            n = n['inner'][0]
        return n

    def _const(self, n):
        m = self._strip(n)
        if m.get('kind') in ('IntegerLiteral', 'CharacterLiteral'):
            try: return int(m.get('value'))
            except Exception: return None
        if m.get('kind') == 'ConstantExpr' and m.get('value') is not None:
            try: return int(m.get('value'))
            except Exception: return None
        if m.get('kind') == 'DeclRefExpr' and (m.get('referencedDecl') or {}).get('kind') == 'EnumConstantDecl':
            return self.enums.get((m.get('referencedDecl') or {}).get('id'))
        if m.get('kind') == 'UnaryOperator' and m.get('opcode') == '-':
            c = self._const(m['inner'][0])
            return -c if c is not None else None
        return None

    def _promoted_plain_char(self, n):
        while n.get('kind') == 'ParenExpr': n = n['inner'][0]
        if n.get('kind') == 'ImplicitCastExpr' and n.get('castKind') == 'IntegralCast':
            return is_plain_char(n['inner'][0].get('type', {}))
        return False

    def _promoted_src_type(self, n):
        while n.get('kind') == 'ParenExpr': n = n['inner'][0]
        if n.get('kind') == 'ImplicitCastExpr' and n.get('castKind') == 'IntegralCast':
            return canon(n['inner'][0].get('type', {}))
        return None


def char_sites(ctx, rep):
    nds = ['N'] if ctx.tier == 'quick' else ['N', 'D']
    root = frontend.repo_root()
    for nd in nds:
        rep.configs.append('AST:' + nd)
        units = ast_units(nd)
        rep.rule('CHAR-1', 'every implicit promotion of a plain-char value to a wider integer type (all library units, type-resolved through '
                 'typedefs) is consumed by: (a) ==/!= against another promoted plain char or a constant in 0..127, or a truth test; (b) '
                 'assignment back to a char; (c) & with a mask within 0xFF or an explicit cast to a fixed-signedness 8-bit type; (e) a relational '
                 'operator between two plain char values (allowed under the table condition CHAR-2). A relational operator against a constant '
                 '(d: e.g. *p < 0), a comparison against a non-char value, arithmetic, indexing or widening (f) makes the result depend on '
                 'whether char is signed')
        sites = []
        seen = set()
        nunits = 0
        for rel, ast in units.items():
            if ast is None: continue
            nunits += 1
            w = Walker(root); w.walk(ast, [])
            for s in w.sites:
                k = (s['file'], s['line'], s['kind'], s['detail'], s['func'])
                if k in seen: continue          # headers are parsed once per unit
                seen.add(k); sites.append(s)
        rep.instances(nunits, 4, 'units with code parsed')
        rep.instances(len(sites), 5, 'plain-char promotion sites')
        counts = {}
        for s in sorted(sites, key=lambda s: (s['file'], s['line'])):
            counts[s['kind']] = counts.get(s['kind'], 0) + 1
            wh = '%s:%s' % (s['file'], s['line'])
            ok = s['kind'] in ('a', 'b', 'c', 'e')
            rep.check(ok, 'promotion of plain char at %s in %s is signedness-independent (%s)' % (wh, s['func'], s['detail']), wh,
                      '%s: %s' % (s['func'], s['detail'].split(':')[0]), detail=s['detail'],
                      sample=dict(s) if counts[s['kind']] <= 2 else None, key='CHAR-1|%s|%s|%s' % (s['func'], s['kind'], s['detail'][:40]))
        rep.info.setdefault('char_site_kinds', {})[nd] = counts


def byte_order_tables(ctx, rep):
    """CHAR-2: the table condition that makes relational comparisons between two plain chars signedness-independent"""
    T = ctx.tables()
    rep.rule('CHAR-2', 'for every language searched with a comparator that orders raw bytes (no accent skipping) the word list is strictly '
             'increasing under BOTH the signed and the unsigned byte order (terminator included), so bsearch visits and matches the same entries '
             'whichever way char is signed; accent-skipping comparators order ASCII letters only once their skip test is signedness-independent (CHAR-1)')
    n = 0
    for L in T.ordered():
        if not L.is_sorted: continue
        if L.has_accents:
            rep.ok('%s: accent-skipping comparator orders ASCII bytes only' % L.sym); continue
        n += 1
        ks = [w + b'\0' for w in L.words]
        for name, f in (('unsigned', lambda k: k), ('signed', lambda k: bytes((c + 128) & 255 for c in k))):
            if L.has_prefix:
                # ASCII-only lists (checked by TAB-4): the two orders coincide
                bad = [i for i, w in enumerate(L.words) if any(c >= 0x80 for c in w)]
            else:
                tk = [f(k) for k in ks]
                bad = [i for i in range(len(tk) - 1) if not tk[i] < tk[i + 1]]
            rep.check(not bad, '%s strictly increasing under the %s byte order' % (L.sym, name), L.sym, '%s word list (%s order)' % (L.sym, name),
                      detail=bad[:5], sample={'language': L.sym, 'order': name}, key='CHAR-2|%s|%s' % (L.sym, name))
    rep.instances(n, 1, 'sorted raw-byte languages')


def ir_signedness_diff(ctx, rep):
    """CHAR-3: the two compilations (-fsigned-char / -funsigned-char) may differ only in the kind of integer extension applied to i8 values"""
    from .ir import base_name
    pairs = [('NsS', 'NuS')] if ctx.tier == 'quick' else [('NsS', 'NuS'), ('DsS', 'DuS')]
    rep.rule('CHAR-3', 'differential rule over the compiler output: the library is lowered twice, with -fsigned-char and with -funsigned-char; every function '
             'must have the same instruction sequence, constants, callees, offsets and types in both, except that a sign extension of an 8-bit value may '
             'become a zero extension (exactly the promotion sites classified by CHAR-1); all global initialisers (tables, constants) must be identical. '
             'A constant, comparison predicate, shift kind or table entry that depends on CHAR_MIN/CHAR_MAX or on plain-char bit-fields shows up here')
    def sig(P, f, i):
        op = i.op
        if op in ('sext', 'zext') and i.d.get('src_bits') == 8: op = 'ext8'
        ops = []
        for v in i.ops:
            k = v['k']
            if k == 'c': ops.append(('c', v['bits'], v['v']))
            elif k == 'g': ops.append(('g', v['name'] if not v['name'].startswith('.str') else '.str', v.get('off')))
            elif k == 'f': ops.append(('f', v['name']))
            else: ops.append(k)
        extra = (i.d.get('pred'), i.d.get('callee'), i.d.get('const_off'), i.d.get('alloc_size'), i.d.get('ty'), i.d.get('size'))
        return (op, tuple(ops), extra)
    for a, b in pairs:
        Pa = ctx.prog(a); Pb = ctx.prog(b)
        rep.configs.append(a + '~' + b)
        names = sorted(set(Pa.defined) | set(Pb.defined))
        n = 0
        for nm in names:
            fa = Pa.defined.get(nm); fb = Pb.defined.get(nm)
            if fa is None or fb is None:
                rep.fail('function %s exists in both compilations' % nm, nm, nm); continue
            n += 1
            sa = [(sig(Pa, fa, i), i.loc) for i in fa.all_insts() if not Pa.is_dbg(i)]
            sb = [(sig(Pb, fb, i), i.loc) for i in fb.all_insts() if not Pb.is_dbg(i)]
            diff = None
            if len(sa) != len(sb): diff = ('different instruction count', sa[0][1] if sa else '?')
            else:
                for (x, lx), (y, ly) in zip(sa, sb):
                    if x != y: diff = ('%s  vs  %s' % (str(x)[:120], str(y)[:120]), lx); break
            rep.check(diff is None, '%s is identical under signed and unsigned char (modulo 8-bit extension kind)' % base_name(nm), diff[1] if diff else nm,
                      '%s differs between -fsigned-char and -funsigned-char' % base_name(nm), detail=diff[0] if diff else None,
                      sample={'function': nm, 'instructions': len(sa)} if n <= 2 else None, key='CHAR-3|%s' % base_name(nm))
        rep.instances(n, 30, 'functions compared')
        ga = {g['name']: json.dumps(g.get('init'), sort_keys=True) for g in Pa.globals.values() if not g['name'].startswith('.str')}
        gb = {g['name']: json.dumps(g.get('init'), sort_keys=True) for g in Pb.globals.values() if not g['name'].startswith('.str')}
        sa_ = sorted(json.dumps(g.get('init'), sort_keys=True) for g in Pa.globals.values() if g['name'].startswith('.str'))
        sb_ = sorted(json.dumps(g.get('init'), sort_keys=True) for g in Pb.globals.values() if g['name'].startswith('.str'))
        bad = sorted(k for k in set(ga) | set(gb) if ga.get(k) != gb.get(k))
        # language tables refer to string literals by generated names: compare their resolved contents instead
        bad = [k for k in bad if not (Pa.globals.get(k, {}).get('ty') == '%struct.polyseed_lang')]
        rep.check(not bad and sa_ == sb_, 'global initialisers and string literals identical in both compilations', str(bad[:3]), 'globals %s differ' % bad[:3], key='CHAR-3|globals')
