"""Harness helpers for bitflow runs: symbolic objects, summaries of injected functions and string helpers."""
from .bitflow import *
from .ir import DATA_STRUCT, base_name


def put(st, obj, off, bv):
    """write a BV little-endian into object memory"""
    cells = st.mem.wcells(obj)
    for k in range(bv.w // 8):
        cells[off + k] = list(bv.bits[8 * k:8 * k + 8])


def get(st, obj, off, nbytes):
    bits = []
    for c in st.mem.objs[obj][off:off + nbytes]:
        if isinstance(c, tuple): bits += [T(0)] * 8
        else: bits += c
    return BV(bits)


def field_offsets(P, sname):
    return {n: (o, sz) for o, (n, sz) in P.field_table(sname).items()}


def symbolic_seed(I, st, name='seed', canonical=True, prefix=''):
    """a struct polyseed_data object whose fields are named input bits.
    canonical: birthday < 2^10, features < 2^5, secret[18] top two bits 0, secret[19..31] = 0 (the L-INIT invariant)"""
    P = I.P
    fo = field_offsets(P, DATA_STRUCT)
    size = P.structs[DATA_STRUCT]['size']
    st.mem.new(name, size, U)
    V = I.V
    o, sz = fo['birthday']
    b = V.bv(prefix + 'birthday', 8 * sz)
    if canonical: b = BV(b.bits[:10] + [0] * (8 * sz - 10))
    put(st, name, o, b)
    o, sz = fo['features']
    b = V.bv(prefix + 'features', 8 * sz)
    if canonical: b = BV(b.bits[:5] + [0] * (8 * sz - 5))
    put(st, name, o, b)
    o, sz = fo['secret']
    for k in range(sz):
        b = V.bv(prefix + 'secret[%d]' % k, 8)
        if canonical and k == 18: b = BV(b.bits[:6] + [0, 0])
        if canonical and k > 18: b = BV([0] * 8)
        put(st, name, o + k, b)
    o, sz = fo['checksum']
    b = V.bv(prefix + 'checksum', 8 * sz)
    if canonical: b = BV(b.bits[:11] + [0] * (8 * sz - 11))
    put(st, name, o, b)
    return Ptr(name, 0), fo


def symbolic_poly(I, st, name='poly', prefix='c', bits=11, first=0):
    st.mem.new(name, 128, 0)
    for k in range(first, 16):
        c = I.V.bv('%s%d' % (prefix, k), bits)
        put(st, name, 8 * k, BV(c.bits + [0] * (64 - bits)))
    return Ptr(name, 0)


class Deps:
    """summaries of the injected functions; records every call in state.trace"""
    def __init__(self, I, alloc_fails='both'):
        self.I = I; self.alloc_fails = alloc_fails
        self.counter = 0

    def install(self, summ):
        for k in ('memzero', 'alloc', 'free', 'randbytes', 'time', 'pbkdf2_sha256', 'u8_nfc', 'u8_nfkd'):
            summ['dep:' + k] = getattr(self, k)

    def memzero(self, I, st, args, inst):
        p, n = args[0], args[1].concrete()
        if n is None:
            # length not a constant: record the event, weak-update the target object
            st.trace.append(('memzero-symbolic-length', repr(p), I.V.show_bv(args[1])[:3], inst.loc))
            if isinstance(p, Ptr) and p.obj in st.mem.objs:
                st.mem.objs[p.obj] = [[T(0)] * 8 for _ in st.mem.objs[p.obj]]; st.mem.owned.add(p.obj)
            return None
        st.trace.append(('memzero', repr(p), n, inst.loc))
        if isinstance(p, BV) and p.concrete() == 0:
            st.events.append(('memzero-null', inst.loc)); I.null_derefs.append((inst.loc, 'dep:memzero(NULL, %d)' % n, [], not st.cons.opaque))
            return None
        obj, off = I._cells(st, p, n, inst, 'store')
        if obj is None: raise Unmodelled('memzero through a symbolic pointer at %s' % inst.loc)
        cells = st.mem.wcells(obj)
        for k in range(n): cells[off + k] = [0] * 8
        return None

    def alloc(self, I, st, args, inst):
        n = args[0].concrete()
        if n is None: raise Unmodelled('alloc with symbolic size')
        outs = []
        if self.alloc_fails in ('both', 'fail'):
            s0 = st.clone(); s0.trace.append(('alloc', n, 'NULL', inst.loc)); s0.cons.opaque.append(('alloc-returns-NULL', inst.loc))
            outs.append(Outcome(s0, BV.const(0, 64)))
        if self.alloc_fails in ('both', 'ok'):
            s1 = st.clone()
            self.counter += 1
            name = 'heap%d' % self.counter
            s1.mem.new(name, n, U)
            s1.trace.append(('alloc', n, name, inst.loc))
            outs.append(Outcome(s1, Ptr(name, 0)))
        return outs

    def free(self, I, st, args, inst):
        p = args[0]
        st.trace.append(('free', repr(p), inst.loc))
        if isinstance(p, Ptr):
            st.trace.append(('free-content', p.obj, [I.V.show(b) for c in st.mem.objs.get(p.obj, []) if not isinstance(c, tuple) for b in c if b != 0][:4]))
        return None

    def randbytes(self, I, st, args, inst):
        p, n = args[0], args[1].concrete()
        st.trace.append(('randbytes', repr(p), n, inst.loc))
        if n is None: raise Unmodelled('randbytes with symbolic length')
        for k in range(n):
            I.store(st, Ptr(p.obj, BV(I.add(p.off.bits, BV.const(k, 64).bits))), I.V.bv('rand[%d]' % k, 8), 1, inst)
        return None

    def time(self, I, st, args, inst):
        st.trace.append(('time', inst.loc))
        return I.V.bv('time', 64)

    def pbkdf2_sha256(self, I, st, args, inst):
        pw, pwlen, salt, saltlen, iters, key, keylen = args
        rec = {'pw': repr(pw), 'pwlen': I.V.show_bv(pwlen) if pwlen.concrete() is None else pwlen.concrete(),
               'salt': repr(salt), 'saltlen': saltlen.concrete(), 'iterations': iters.concrete(), 'key': repr(key),
               'keylen': keylen.concrete() if keylen.concrete() is not None else I.V.show_bv(keylen), 'loc': inst.loc,
               '_pwlen': pwlen, '_keylen': keylen, '_key': key, '_pw': pw}
        if isinstance(salt, Ptr) and saltlen.concrete() is not None:
            rec['_salt_bytes'] = I.load(st, salt, saltlen.concrete(), inst)
        if isinstance(pw, Ptr) and pwlen.concrete() is not None and pw.obj in st.mem.objs:
            rec['_pw_bytes'] = I.load(st, pw, pwlen.concrete(), inst)
        st.trace.append(('pbkdf2', rec))
        n = keylen.concrete()
        if n is not None and isinstance(key, Ptr) and key.obj in st.mem.objs:
            for k in range(n):
                I.store(st, Ptr(key.obj, BV(I.add(key.off.bits, BV.const(k, 64).bits))), I.V.bv('mask[%d]' % k, 8), 1, inst)
        return None

    def u8_nfc(self, I, st, args, inst):
        st.trace.append(('u8_nfc', repr(args[0]), repr(args[1]), inst.loc))
        return I.V.bv('nfc.len', 64)

    def u8_nfkd(self, I, st, args, inst):
        st.trace.append(('u8_nfkd', repr(args[0]), repr(args[1]), inst.loc))
        return I.V.bv('nfkd.len', 64)


def _smear(I, st, p):
    """a string helper wrote an unknown string into the phrase buffer at p: sizeof(polyseed_str) bytes from p (clipped to the object) become unknown"""
    S = I.P.ditypes.get('typedef:polyseed_str', {}).get('size_bits', 0) // 8 or len(st.mem.objs[p.obj])
    off = p.coff() or 0
    cells = st.mem.wcells(p.obj)
    for k in range(off, min(len(cells), off + S)):
        cells[k] = [T(0)] * 8


def string_summaries(I, summ):
    """summaries for helpers whose control depends on string contents"""
    def nfkd_lazy(I, st, args, inst):
        st.trace.append(('utf8_nfkd_lazy', repr(args[0]), repr(args[1]), inst.loc))
        p = args[1]
        if isinstance(p, Ptr) and p.obj in st.mem.objs:
            _smear(I, st, p)
        return I.V.bv('nfkd.len', 64)
    summ['utf8_nfkd_lazy'] = nfkd_lazy

    def write_str(I, st, args, inst):
        st.trace.append(('write_str', repr(args[0]), args[1], inst.loc))
        p = args[0]      # char** pos: advance by an unknown amount within the same object
        cur = I.load(st, p, 8, inst, as_ptr=True)
        if isinstance(cur, Ptr):
            if cur.coff() is not None:
                st.forced[('write_str-base', cur.obj)] = cur.coff()      # where the phrase buffer starts inside its object
            I.store(st, p, Ptr(cur.obj, BV([T(0)] * 64)), 8, inst)
            if cur.obj in st.mem.objs:
                _smear(I, st, Ptr(cur.obj, st.forced.get(('write_str-base', cur.obj), 0)))
        return None
    # (no summary by name: whichever library function is handed a word / separator token is summarised as the phrase writer by writer_generic below)

    def writer_generic(I, st, args, inst):
        """any function of the library that is handed a word / separator token: it appends that string to the phrase buffer among its arguments"""
        tag = [a for a in args if isinstance(a, Tag)][0]
        ptrs = [a for a in args if isinstance(a, Ptr)]
        def ident(p_):
            # identity of the output cursor: the cursor variable, or (cursor passed / returned by value) the buffer it points into
            if p_.obj in st.mem.objs and len(st.mem.objs[p_.obj]) == 8: return repr(p_)
            return 'Ptr(%s+*)' % p_.obj
        st.trace.append(('write_str', ident(ptrs[0]) if ptrs else '?', tag, inst.loc))
        for p_ in ptrs:
            if p_.obj in st.mem.objs and p_.obj.startswith('a:'):
                cur = None
                if len(st.mem.objs[p_.obj]) == 8:          # a cursor variable (char**): advance it by an unknown amount
                    cur = I.load(st, p_, 8, inst, as_ptr=True)
                    if isinstance(cur, Ptr):
                        if cur.coff() is not None: st.forced[('write_str-base', cur.obj)] = cur.coff()
                        I.store(st, p_, Ptr(cur.obj, BV([T(0)] * 64)), 8, inst)
                        if cur.obj in st.mem.objs: _smear(I, st, Ptr(cur.obj, st.forced.get(('write_str-base', cur.obj), 0)))
                else:
                    _smear(I, st, Ptr(p_.obj, p_.coff() or 0))
        ty = inst.d.get('ty', '')
        if ty.startswith('{') or ty.startswith('%'):
            # the cursor is an aggregate returned by value: every pointer member points somewhere into the same buffer
            if ty.startswith('%'):
                stt = I.P.structs.get(ty[1:]); ftys = [fl['ty'] for fl in stt['fields']] if stt else []
            else:
                ftys = [x.strip() for x in ty.strip('{} ').split(',')]
            bufs = [p_ for p_ in ptrs if p_.obj in st.mem.objs]
            if ftys and all(t_.endswith('*') for t_ in ftys) and bufs:
                return Agg({(k,): Ptr(bufs[0].obj, BV([T(0)] * 64)) for k in range(len(ftys))})
            raise Unmodelled('phrase writer returning %s at %s' % (ty, inst.loc))
        if ty.endswith('*'):
            bufs = [p_ for p_ in ptrs if p_.obj in st.mem.objs]
            if bufs: return Ptr(bufs[0].obj, BV([T(0)] * 64))       # the advanced cursor, returned by value
        if inst.d['bits']:
            I._npos = getattr(I, '_npos', 0) + 1
            r = I.V.bv('pos%d' % I._npos, inst.d['bits'])
            for b in r.bits: I.nofork |= b[0]
            return r
        return None
    I.tag_consumer = writer_generic

    def str_split(I, st, args, inst):
        st.trace.append(('str_split', repr(args[0]), repr(args[1]), inst.loc))
        p = args[1]
        if isinstance(p, Ptr) and p.obj in st.mem.objs:
            n = len(st.mem.objs[p.obj]) // 8
            cells = st.mem.wcells(p.obj)
            for k in range(n):
                for j in range(8):
                    cells[8 * k + j] = ('tag', Tag('token', k), j)
        return I.V.bv('nwords', 32)
    summ['str_split'] = str_split
    # the same summaries under whatever names / parameter orders the helpers have in this tree (found by role)
    try:
        for r in I.P.roles('lazy'):
            summ[r.fn.name] = (lambda I_, st_, args, inst, r=r: nfkd_lazy(I_, st_, [args[r.args['src']], args[r.args['out']]], inst))
        for r in I.P.roles('tokeniser'):
            summ[r.fn.name] = (lambda I_, st_, args, inst, r=r: str_split(I_, st_, [args[r.args['buf']], args[r.args['words']]], inst))
    except Exception:
        pass
