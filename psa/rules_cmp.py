"""C08 / C14: structural rules on the word comparators and the other NUL-terminated cursor loops."""
from .frontend import AnalysisBroken
from .ir import base_name, const_of, LANG_STRUCT
from .paths import feasible_walks


# ---------- small expression classifiers on mem2reg SSA
def inst_of(f, v):
    return f.insts.get(v['id']) if v['k'] == 'i' else None


def byte_load(f, v):
    """v is (an integer extension of) an i8 load: return the load instruction"""
    i = inst_of(f, v)
    while i is not None and i.op in ('sext', 'zext', 'trunc'):
        i = inst_of(f, i.ops[0])
    if i is not None and i.op == 'load' and i.d['bits'] == 8:
        return i
    return None


def cond_class(f, v):
    """classify an i1 value: ('nonascii', load, pol) | ('nul', load, pol) | ('eq', loadA, loadB, pol) | ('cmp', a, b) | None
    pol = True means: condition true  =>  the named fact holds (byte is non-ASCII / byte is NUL / bytes equal)"""
    i = inst_of(f, v)
    if i is None: return None
    if i.op == 'xor' and const_of(i.ops[1]) == 1:
        c = cond_class(f, i.ops[0])
        if c and c[0] in ('nonascii', 'nul', 'eq'): return c[:-1] + (not c[-1],)
        return c
    if i.op != 'icmp': return None
    p = i.d['pred']; a, b = i.ops
    ca, cb = const_of(a), const_of(b)
    if cb is None and ca is not None:
        a, b, ca, cb = b, a, cb, ca
        p = {'slt': 'sgt', 'sgt': 'slt', 'sle': 'sge', 'sge': 'sle', 'ult': 'ugt', 'ugt': 'ult', 'ule': 'uge', 'uge': 'ule'}.get(p, p)
    if cb is not None:
        ai = inst_of(f, a)
        # (x & 0x80) != 0
        if ai is not None and ai.op == 'and' and const_of(ai.ops[1]) == 128 and cb == 0 and p in ('ne', 'eq'):
            l = byte_load(f, ai.ops[0])
            if l: return ('nonascii', l, p == 'ne')
        l = byte_load(f, a)
        if l is not None:
            sx = inst_of(f, a).op if inst_of(f, a).op in ('sext', 'zext') else None
            if cb == 0 and p in ('eq', 'ne'): return ('nul', l, p == 'eq')
            if cb == 0 and p == 'slt' and sx == 'sext': return ('nonascii', l, True)
            if cb == 0 and p == 'sge' and sx == 'sext': return ('nonascii', l, False)
            if cb == 127 and p == 'ugt' and sx == 'zext': return ('nonascii', l, True)
            if cb == 128 and p == 'uge' and sx == 'zext': return ('nonascii', l, True)
            return ('constcmp', l, p, cb)
        return None
    la, lb = byte_load(f, a), byte_load(f, b)
    if la is not None and lb is not None:
        if p in ('eq', 'ne'): return ('eq', la, lb, p == 'eq')
        return ('cmp', la, lb)
    return None


def cursor_family(f, argno):
    """SSA pointer values derived from parameter argno by phi / constant GEP / bitcast; value key -> offset info not tracked"""
    fam = {('a', argno)}
    grow = True
    while grow:
        grow = False
        for i in f.all_insts():
            if ('i', i.id) in fam: continue
            srcs = []
            if i.op == 'phi': srcs = [v for v, _ in i.d['incoming']]
            elif i.op in ('getelementptr', 'bitcast'): srcs = i.ops[:1]
            for v in srcs:
                k = ('i', v['id']) if v['k'] == 'i' else (('a', v['n']) if v['k'] == 'a' else None)
                if k in fam:
                    fam.add(('i', i.id)); grow = True; break
    return fam


def vk(v):
    return ('i', v['id']) if v['k'] == 'i' else (('a', v['n']) if v['k'] == 'a' else None)


def addr_base(f, v):
    """address operand -> (base value key, constant offset) following constant GEPs/bitcasts only"""
    off = 0
    while v['k'] == 'i':
        i = f.insts[v['id']]
        if i.op == 'getelementptr' and not i.d['var_steps']:
            off += i.d['const_off']; v = i.ops[0]
        elif i.op == 'bitcast':
            v = i.ops[0]
        else:
            break
    return vk(v), off


def skip_loops(f):
    """[(header block, phi inst, latch block, test load)]: while (nonascii(*c)) ++c;"""
    out = []
    for b, blk in enumerate(f.blocks):
        t = blk[-1]
        if t.op != 'br' or len(t.ops) != 3: continue
        c = cond_class(f, t.ops[0])
        if not c or c[0] != 'nonascii': continue
        ld = c[1]
        base, off = addr_base(f, ld.ops[0])
        if off != 0 or base is None or base[0] != 'i': continue
        phi = f.insts[base[1]]
        if phi.op != 'phi' or phi.bb != b: continue
        cont = f.succs[b][0] if c[2] else f.succs[b][1]      # successor taken when the byte is non-ASCII
        for v, pb in phi.d['incoming']:
            if pb == cont and f.succs[cont] == [b]:
                bb_, o = addr_base(f, v)
                if bb_ == ('i', phi.id) and o == 1:
                    out.append((b, phi, cont, ld))
    return out


def edge_dominates(f, a, b, x):
    """every path from entry to block x uses edge a->b"""
    if x == b and len(f.preds[b]) == 1 and f.preds[b][0] == a:
        return True
    seen = set(); st = [0]
    while st:
        n = st.pop()
        if n in seen: continue
        seen.add(n)
        if n == x: return False
        for s in f.succs[n]:
            if n == a and s == b: continue
            st.append(s)
    return True


def comparators(P):
    """functions reachable as bsearch/linear-scan comparators and the two-string functions they call"""
    pts = P.points_to()
    wrappers = set()
    for f in P.defined.values():
        for i, t in P.calls(f):
            if t == ('direct', 'bsearch'):
                wrappers |= {o[1] for o in pts.of(f, i.ops[4]) if o[0] == 'func'}
            elif t[0] == 'indirect':
                wrappers |= {o[1] for o in pts.of(f, t[1]) if o[0] == 'func'}
    cmps = {}
    for w in sorted(wrappers):
        if w not in P.defined: continue
        F = P.defined[w]
        for i, t in P.calls(F):
            if t[0] == 'direct' and t[1] in P.defined:
                g = P.defined[t[1]]
                if len(g.params) >= 2 and g.params[0]['ty'] == 'i8*' and g.params[1]['ty'] == 'i8*':
                    cmps[w] = (g, i)
    return wrappers, cmps


def features_of(P, g):
    sk = skip_loops(g)
    counter = None
    if len(g.params) >= 3 and g.params[2]['ty'] == 'i32':
        for i in g.all_insts():
            if i.op == 'icmp' and any(v == {'k': 'a', 'n': 2} for v in i.ops):
                counter = i
    return {'skip': bool(sk), 'prefix': counter is not None}


def dispatch(ctx, rep):
    for cfg in (ctx.configs('path') if ctx.tier == 'thorough' else ['NsS']):
        P = ctx.prog(cfg)
        if cfg not in rep.configs: rep.configs.append(cfg)
        gc = P.fn('get_comparer')
        wrappers, cmps = comparators(P)
        rep.rule('CMP-1', 'dispatch: get_comparer returns, for each (has_prefix, has_accents) combination of the language flags, the wrapper of the '
                 'comparator with exactly those capabilities (prefix cut-off present iff has_prefix; accent-skip loops present iff has_accents); the prefix '
                 'wrappers pass the constant 4; every word search obtains its comparator from get_comparer(lang) for the same lang it searches')
        rep.instances(len(cmps), 2, 'comparator wrappers')
        ft = {o: n for o, (n, s) in P.field_table(LANG_STRUCT).items()}
        ws = feasible_walks(P, gc)
        rep.instances(len(ws), 2, 'paths of get_comparer')
        seen = {}
        for w in ws:
            flags = {}
            for (k, rel, c) in w.facts:
                if k[0] != 'i': continue
                src = gc.insts[k[1]]
                ld = src
                while ld.op in ('trunc', 'zext', 'sext', 'and'): ld = gc.insts[ld.ops[0]['id']] if ld.ops[0]['k'] == 'i' else ld
                if ld.op == 'load':
                    base, off = addr_base(gc, ld.ops[0])
                    if base == ('a', 0) and off in ft:
                        val = (rel == 'ne' and c == 0) or (rel == 'eq' and c != 0)
                        flags[ft[off]] = val
            # branch conditions are i1 truncs of the i8 flag: facts may be recorded on the trunc: recover through taken branches
            for i in w.events:
                if i.op == 'br' and len(i.ops) == 3 and i.id in w.taken:
                    c = w.resolve(i.ops[0])
                    if c['k'] == 'i':
                        ci = gc.insts[c['id']]
                        x = ci
                        while x.op in ('trunc', 'zext', 'sext') or (x.op == 'icmp' and const_of(x.ops[1]) == 0):
                            neg = x.op == 'icmp' and x.d['pred'] == 'eq'
                            x = gc.insts[x.ops[0]['id']] if x.ops[0]['k'] == 'i' else x
                            if x is ci: break
                        if x.op == 'load':
                            base, off = addr_base(gc, x.ops[0])
                            if base == ('a', 0) and off in ft:
                                flags[ft[off]] = bool(w.taken[i.id])
            rv = w.ret_value()
            tgt = rv['name'] if rv and rv['k'] == 'f' else None
            where = gc.blocks[w.path[-1]][-1].loc
            if tgt is None or tgt not in cmps:
                rep.fail('get_comparer returns a comparator wrapper on every path', where, 'get_comparer path %s' % w.path, detail=str(rv)); continue
            g, call = cmps[tgt]
            fe = features_of(P, g)
            hp, ha = flags.get('has_prefix'), flags.get('has_accents')
            seen[(hp, ha)] = tgt
            rep.check(hp is not None and ha is not None and fe['prefix'] == hp and fe['skip'] == ha,
                      'flags (has_prefix=%s, has_accents=%s) select %s (prefix cut-off: %s, accent skipping: %s)' % (hp, ha, base_name(g.name), fe['prefix'], fe['skip']),
                      where, 'get_comparer -> %s' % tgt, detail={'flags': flags, 'comparator': g.name, 'features': fe},
                      sample={'has_prefix': hp, 'has_accents': ha, 'comparator': base_name(g.name)}, key='CMP-1|%s|%s' % (hp, ha))
            if fe['prefix']:
                n = const_of(call.ops[2]) if len(call.ops) > 2 else None
                rep.check(n == 4, 'prefix wrapper %s passes the constant 4' % tgt, call.loc, tgt, detail=n, key='CMP-1|n|%s' % tgt)
        rep.check(set(seen) == {(True, True), (True, False), (False, True), (False, False)}, 'all four flag combinations are dispatched', loc_gc(gc), 'get_comparer',
                  detail=sorted(map(str, seen)))
        # every search site uses get_comparer(lang) for the lang it searches
        ls = P.fn('lang_search')
        n = 0
        for f in P.defined.values():
            for i, t in P.calls(f):
                if t == ('direct', ls.name):
                    n += 1
                    cv = i.ops[2]; ci = inst_of(f, cv)
                    ok = ci is not None and ci.op == 'call' and P.call_target(ci) == ('direct', gc.name) and ci.ops[0] == i.ops[0]
                    rep.check(ok, 'search at %s uses get_comparer of the language it searches' % i.loc, i.loc, '%s search site' % base_name(f.name),
                              sample={'site': i.loc}, key='CMP-1|site|%s' % base_name(f.name))
        rep.instances(n, 2, 'word search sites')


def loc_gc(f):
    return '%s:%s' % ((f.file or '').replace('/repo/', ''), f.line)


def skip_normalised(ctx, rep):
    for cfg in (ctx.configs('path') if ctx.tier == 'thorough' else ['NsS']):
        P = ctx.prog(cfg)
        if cfg not in rep.configs: rep.configs.append(cfg)
        wrappers, cmps = comparators(P)
        rep.rule('CMP-3', 'contradiction rule: in a comparator that contains "skip non-ASCII" loops on a cursor, every byte read through that cursor that '
                 'feeds a branch (other than the skip test) or the result is read at offset 0 of a skip-normalised cursor value (the exit value of a '
                 'skip loop): a read such as key[1] looks at a raw byte the function elsewhere believes must be skipped, so a prefix that ends in an '
                 'accented letter is treated differently from the same prefix typed without the accent')
        n = 0
        for w, (g, call) in sorted(cmps.items()):
            sk = skip_loops(g)
            if not sk: continue
            n += 1
            norm = {phi.id for _, phi, _, _ in sk}
            skip_tests = {ld.id for _, _, _, ld in sk}
            fams = {a: cursor_family(g, a) for a in (0, 1)}
            for i in g.all_insts():
                if i.op != 'load' or i.d['bits'] != 8 or i.id in skip_tests: continue
                base, off = addr_base(g, i.ops[0])
                fam = [a for a in (0, 1) if base in fams[a]]
                if not fam: continue
                ok = off == 0 and base[0] == 'i' and base[1] in norm
                rep.check(ok, 'read of %s byte at %s is at offset 0 of a skip-normalised cursor' % ('key' if fam[0] == 0 else 'element', i.loc), i.loc,
                          '%s: %s[%d] read without skipping combining marks' % (base_name(g.name), 'key' if fam[0] == 0 else 'elm', off),
                          detail={'offset': off, 'cursor_is_skip_loop_exit': base[0] == 'i' and base[1] in norm},
                          sample={'function': g.name, 'site': i.loc, 'offset': off}, key='CMP-3|%s|%s[%d]' % (base_name(g.name), 'key' if fam[0] == 0 else 'elm', off))
        rep.instances(n, 1, 'accent-skipping comparators')


def counter_pairing(ctx, rep):
    for cfg in (ctx.configs('path') if ctx.tier == 'thorough' else ['NsS']):
        P = ctx.prog(cfg)
        if cfg not in rep.configs: rep.configs.append(cfg)
        wrappers, cmps = comparators(P)
        rep.rule('CMP-6', 'prefix counter: in a prefix comparator the character counter starts so that the cut-off first applies at the 4th compared '
                 'character, is incremented by exactly 1, and every increment is dominated by the "bytes equal" outcome of the comparison of the two '
                 'cursor bytes in the same iteration (skipped accent bytes never count); the cut-off reads the key only; exact comparators have no cut-off')
        n = 0
        for w, (g, call) in sorted(cmps.items()):
            fe = features_of(P, g)
            if not fe['prefix']: continue
            n += 1
            cut = [i for i in g.all_insts() if i.op == 'icmp' and any(v == {'k': 'a', 'n': 2} for v in i.ops)]
            rep.check(len(cut) == 1, 'one cut-off test against n', loc_gc(g), g.name, detail=len(cut))
            if len(cut) != 1: continue
            c = cut[0]
            other = c.ops[0] if c.ops[1] == {'k': 'a', 'n': 2} else c.ops[1]
            phi = inst_of(g, other)
            ok = phi is not None and phi.op == 'phi' and len(phi.d['incoming']) == 2
            init = step = None
            if ok:
                for v, pb in phi.d['incoming']:
                    if const_of(v) is not None: init = const_of(v)
                    else:
                        a = inst_of(g, v)
                        if a is not None and a.op == 'add' and vk(a.ops[0]) == ('i', phi.id) and const_of(a.ops[1]) == 1: step = a
            rep.check(ok and init is not None and step is not None, 'counter is a loop variable with constant start and unit stride', c.loc, base_name(g.name),
                      key='CMP-6|%s|shape' % base_name(g.name))
            if not (ok and init is not None and step is not None): continue
            # first iteration (1-based compared character) at which the cut-off predicate holds for n = 4
            def holds(iv, n=4):
                a, b = (iv, n) if c.ops[1] == {'k': 'a', 'n': 2} else (n, iv)
                return {'sge': a >= b, 'sgt': a > b, 'sle': a <= b, 'slt': a < b, 'uge': a >= b, 'ugt': a > b, 'ule': a <= b, 'ult': a < b, 'eq': a == b, 'ne': a != b}[c.d['pred']]
            first = None
            for it in range(1, 12):
                if holds(init + it - 1): first = it; break
            mono = all(holds(init + it - 1) for it in range(first or 1, 12)) if first else False
            rep.check(first == 4 and mono, 'cut-off applies from the 4th compared character on (start %d, predicate %s)' % (init, c.d['pred']), c.loc,
                      '%s prefix threshold' % base_name(g.name), detail={'first_iteration': first}, sample={'function': g.name, 'start': init, 'first': first},
                      key='CMP-6|%s|threshold' % base_name(g.name))
            # increment dominated by equality outcome
            eqedges = []
            for b, blk in enumerate(g.blocks):
                t = blk[-1]
                if t.op == 'br' and len(t.ops) == 3:
                    cc = cond_class(g, t.ops[0])
                    if cc and cc[0] == 'eq':
                        fams0 = cursor_family(g, 0); fams1 = cursor_family(g, 1)
                        b0, _ = addr_base(g, cc[1].ops[0]); b1, _ = addr_base(g, cc[2].ops[0])
                        if (b0 in fams0 and b1 in fams1) or (b0 in fams1 and b1 in fams0):
                            eqedges.append((b, g.succs[b][0] if cc[3] else g.succs[b][1]))
            dom = any(edge_dominates_from_header(g, phi.bb, a, b2, step.bb) for a, b2 in eqedges)
            rep.check(dom, 'every increment of the character counter follows the "bytes equal" outcome in the same iteration', step.loc,
                      '%s: counter incremented without a matched character' % base_name(g.name), detail={'equality_edges': eqedges, 'increment_block': step.bb},
                      key='CMP-6|%s|pairing' % base_name(g.name))
        rep.instances(n, 1, 'prefix comparators')


def edge_dominates_from_header(f, header, a, b, x):
    """within one iteration: every path from the loop header to block x uses edge a->b"""
    seen = set(); st = [header]
    first = True
    while st:
        n = st.pop()
        if n in seen: continue
        seen.add(n)
        if n == x and not first: return False
        first = False
        for s in f.succs[n]:
            if n == a and s == b: continue
            if s == header: continue
            st.append(s)
    return x != header


def cond_facts(g, v, outcome):
    """facts implied by i1 value v having the given outcome: set of ('nn', valuekey) / ('eq', a, b)"""
    cc = cond_class(g, v)
    out = set()
    if not cc: return out
    if cc[0] == 'nonascii':
        base, off = addr_base(g, cc[1].ops[0])
        if off == 0 and cc[2] == outcome: out.add(('nn', base))
    elif cc[0] == 'nul':
        base, off = addr_base(g, cc[1].ops[0])
        if off == 0 and cc[2] != outcome: out.add(('nn', base))
    elif cc[0] == 'constcmp' and cc[2] in ('ne', 'eq') and cc[3] != 0:
        base, off = addr_base(g, cc[1].ops[0])
        if off == 0 and (cc[2] == 'eq') == outcome: out.add(('nn', base))        # *c == ' ' implies non-NUL
    elif cc[0] == 'eq':
        b0, o0 = addr_base(g, cc[1].ops[0]); b1, o1 = addr_base(g, cc[2].ops[0])
        if o0 == 0 and o1 == 0 and cc[3] == outcome: out.add(('eq', b0, b1))
    return out


def nonnul_dataflow(g):
    """forward must-analysis: IN[b] = facts (byte under SSA cursor value known non-NUL / two bytes equal) holding on every path to b.
    SSA values are immutable, so nothing is killed; short-circuit conditions (phi of i1 with constant-false arms) are handled."""
    nb = len(g.blocks)
    TOP = None
    IN = {b: TOP for b in range(nb)}; IN[0] = set()
    EDGE = {}
    def meet(a, b):
        if a is TOP: return b
        if b is TOP: return a
        return a & b
    changed = True
    it = 0
    while changed and it < 50:
        changed = False; it += 1
        for b in range(nb):
            if IN[b] is TOP: continue
            t = g.blocks[b][-1]
            succs = g.succs[b]
            for k, s_ in enumerate(succs):
                f = set(IN[b])
                if t.op == 'br' and len(t.ops) == 3 and succs[0] != succs[1]:
                    outcome = (k == 0)
                    ci = inst_of(g, t.ops[0])
                    if ci is not None and ci.op == 'phi' and ci.bb == b:
                        if outcome:
                            acc = TOP
                            for v, pb in ci.d['incoming']:
                                if const_of(v) == 0: continue       # this arm cannot make the condition true
                                e = EDGE.get((pb, b))
                                if e is None: acc = meet(acc, set()) if False else acc; continue
                                acc = meet(acc, e | (cond_facts(g, v, True) if const_of(v) is None else set()))
                            if acc is not TOP: f |= acc
                        else:
                            acc = TOP
                            for v, pb in ci.d['incoming']:
                                if const_of(v) == 1: continue
                                e = EDGE.get((pb, b))
                                if e is None: continue
                                acc = meet(acc, e | (cond_facts(g, v, False) if const_of(v) is None else set()))
                            if acc is not TOP: f |= acc
                    else:
                        f |= cond_facts(g, t.ops[0], outcome)
                if EDGE.get((b, s_)) != f:
                    EDGE[(b, s_)] = f; changed = True
        for b in range(1, nb):
            acc = TOP
            for p_ in g.preds[b]:
                if (p_, b) in EDGE: acc = meet(acc, EDGE[(p_, b)])
            if acc is not TOP and acc != IN[b]:
                IN[b] = acc; changed = True
    return IN


def known_nonnul(facts, val, depth=0):
    if facts is None: return False
    if ('nn', val) in facts: return True
    if depth < 3:
        for f in facts:
            if f[0] == 'eq':
                other = f[2] if f[1] == val else (f[1] if f[2] == val else None)
                if other is not None and known_nonnul(facts - {f}, other, depth + 1): return True
    return False


def cursor_safety(ctx, rep):
    """C14 clause 2 / C08 clause 4: no advance past, and no read beyond, a byte not known to be non-NUL"""
    for cfg in (ctx.configs('path') if ctx.tier == 'thorough' else ['NsS']):
        P = ctx.prog(cfg)
        if cfg not in rep.configs: rep.configs.append(cfg)
        wrappers, cmps = comparators(P)
        targets = {}
        for w, (g, call) in cmps.items(): targets[g.name] = (g, [0, 1])
        for nm, args in (('str_split', [0]), ('write_str', [1]), ('utf8_nfkd_lazy', [0])):
            for g in P.fns(nm): targets[g.name] = (g, args)
        rep.rule('CUR-1', 'NUL-terminated cursor discipline (comparators, str_split, write_str, utf8_nfkd_lazy): an input cursor is advanced by exactly one '
                 'byte and only where the byte under it is known non-NUL on every path (must-dataflow over the outcomes of *c != 0, of the non-ASCII '
                 'test, of *c == <non-zero constant>, and of equality with a byte known non-NUL); c[k] with k >= 1 is read only for k = 1 and only where '
                 'c[0] is known non-NUL')
        rep.instances(len(targets), 4, 'cursor functions')
        nadv = 0
        for name, (g, args) in sorted(targets.items()):
            fams = {a: cursor_family(g, a) for a in args}
            IN = nonnul_dataflow(g)
            for i in g.all_insts():
                if i.op == 'getelementptr' and not i.d['var_steps'] and i.d['res_elem_size'] == 1:
                    base, off = addr_base(g, i.ops[0])
                    fam = [a for a in args if base in fams[a]]
                    if not fam: continue
                    users_other = [u for u in g.all_insts() if u.op in ('phi', 'getelementptr', 'store', 'call', 'ret') and
                                   any(v == {'k': 'i', 'id': i.id} for v in (u.ops if u.op != 'phi' else [x for x, _ in u.d['incoming']]))]
                    k = off + i.d['const_off']
                    nadv += 1
                    nn = known_nonnul(IN[i.bb], base)
                    ok = k == 1 and nn
                    what = 'advance' if users_other else 'read of c[%d]' % k
                    rep.check(ok, '%s at %s: cursor byte known non-NUL and step is 1' % (what, i.loc), i.loc, '%s: %s past a byte not known non-NUL' % (base_name(g.name), what),
                              detail={'step': k, 'known_non_nul': nn}, sample={'function': g.name, 'site': i.loc, 'kind': what} if nadv <= 3 else None,
                              key='CUR-1|%s|%s|%s' % (base_name(g.name), what, i.loc.split(':')[-1]))
        rep.instances(nadv, 8, 'cursor advance / look-ahead sites')


def conj_terms(g, v):
    return []


def conds_for_edges(g, b, t):
    return []


def nfkd_before_split(ctx, rep):
    for cfg in (ctx.configs('path') if ctx.tier == 'thorough' else ['NsS']):
        P = ctx.prog(cfg)
        if cfg not in rep.configs: rep.configs.append(cfg)
        rep.rule('CMP-2', 'in both decoders utf8_nfkd_lazy(str, buf) dominates str_split(buf, words) on the same local buffer, and the tokens searched '
                 'are the ones str_split produced: accents reach the comparators as separate non-ASCII bytes in whatever form the user typed them')
        n = 0
        for f in P.defined.values():
            calls = list(P.calls(f))
            sp = [i for i, t in calls if t[0] == 'direct' and base_name(t[1]) == 'str_split']
            for s_ in sp:
                n += 1
                nk = [i for i, t in calls if t[0] == 'direct' and base_name(t[1]) == 'utf8_nfkd_lazy' and f.inst_dominates(i, s_)]
                ok = False
                for k in nk:
                    a, _ = addr_base(f, k.ops[1]); b, _ = addr_base(f, s_.ops[0])
                    if a == b and a is not None and f.insts[a[1]].op == 'alloca': ok = True
                rep.check(ok, 'str_split at %s works on the buffer a dominating utf8_nfkd_lazy call filled' % s_.loc, s_.loc, '%s tokenises un-normalised input' % base_name(f.name),
                          sample={'function': f.name, 'split': s_.loc}, key='CMP-2|%s' % base_name(f.name))
                ph = [i for i, t in calls if t[0] == 'direct' and base_name(t[1]).startswith('polyseed_phrase_decode')]
                okp = bool(ph) and all(addr_base(f, p.ops[0])[0] == addr_base(f, s_.ops[1])[0] and f.inst_dominates(s_, p) for p in ph)
                rep.check(okp, 'the phrase search receives the token array str_split filled', s_.loc, base_name(f.name), key='CMP-2|%s|tokens' % base_name(f.name))
        rep.instances(n, 1, 'tokeniser call sites')
