"""C08 / C14: structural rules on the word comparators and the other NUL-terminated cursor loops."""
from .frontend import AnalysisBroken
from .ir import base_name, const_of, LANG_STRUCT
from .paths import feasible_walks
from .context import SETUP_FUNCS


# ---------- small expression classifiers on mem2reg SSA
def inst_of(f, v):
    return f.insts.get(v['id']) if v['k'] == 'i' else None


def byte_load(f, v):
    """v is (an integer extension of) an i8 load: return the load instruction"""
    i = inst_of(f, v)
    while i is not None and i.op in ('sext', 'zext', 'trunc'):
        i = inst_of(f, i.ops[0])
    if i is not None and i.op == 'load' and i.d['bits'] == 8:
        return i
    return None


def cond_class(f, v):
    """classify an i1 value: ('nonascii', load, pol) | ('nul', load, pol) | ('eq', loadA, loadB, pol) | ('cmp', a, b) | None
    pol = True means: condition true  =>  the named fact holds (byte is non-ASCII / byte is NUL / bytes equal)"""
    i = inst_of(f, v)
    if i is None: return None
    if i.op == 'xor' and const_of(i.ops[1]) == 1:
        c = cond_class(f, i.ops[0])
        if c and c[0] in ('nonascii', 'nul', 'eq'): return c[:-1] + (not c[-1],)
        return c
    if i.op != 'icmp': return None
    p = i.d['pred']; a, b = i.ops
    ca, cb = const_of(a), const_of(b)
    if cb is None and ca is not None:
        a, b, ca, cb = b, a, cb, ca
        p = {'slt': 'sgt', 'sgt': 'slt', 'sle': 'sge', 'sge': 'sle', 'ult': 'ugt', 'ugt': 'ult', 'ule': 'uge', 'uge': 'ule'}.get(p, p)
    if cb is not None:
        ai = inst_of(f, a)
        # (x & 0x80) != 0
        if ai is not None and ai.op == 'and' and const_of(ai.ops[1]) == 128 and cb == 0 and p in ('ne', 'eq'):
            l = byte_load(f, ai.ops[0])
            if l: return ('nonascii', l, p == 'ne')
        l = byte_load(f, a)
        if l is not None:
            sx = inst_of(f, a).op if inst_of(f, a).op in ('sext', 'zext') else None
            if cb == 0 and p in ('eq', 'ne'): return ('nul', l, p == 'eq')
            if cb == 0 and p == 'slt' and sx == 'sext': return ('nonascii', l, True)
            if cb == 0 and p == 'sge' and sx == 'sext': return ('nonascii', l, False)
            if sx == 'zext':
                # unsigned byte promoted to int: c > 0x7f, c >= 0x80 and their negations (signed or unsigned predicate on the int)
                if cb == 127 and p in ('ugt', 'sgt'): return ('nonascii', l, True)
                if cb == 128 and p in ('uge', 'sge'): return ('nonascii', l, True)
                if cb == 128 and p in ('ult', 'slt'): return ('nonascii', l, False)
                if cb == 127 and p in ('ule', 'sle'): return ('nonascii', l, False)
            return ('constcmp', l, p, cb)
        return None
    la, lb = byte_load(f, a), byte_load(f, b)
    if la is not None and lb is not None:
        if p in ('eq', 'ne'): return ('eq', la, lb, p == 'eq')
        return ('cmp', la, lb)
    return None


def cursor_family(f, argno):
    """SSA pointer values derived from parameter argno by phi / constant GEP / bitcast; value key -> offset info not tracked"""
    fam = {('a', argno)}
    grow = True
    while grow:
        grow = False
        for i in f.all_insts():
            if ('i', i.id) in fam: continue
            srcs = []
            if i.op == 'phi': srcs = [v for v, _ in i.d['incoming']]
            elif i.op in ('getelementptr', 'bitcast'): srcs = i.ops[:1]
            for v in srcs:
                k = ('i', v['id']) if v['k'] == 'i' else (('a', v['n']) if v['k'] == 'a' else None)
                if k in fam:
                    fam.add(('i', i.id)); grow = True; break
    return fam


def vk(v):
    return ('i', v['id']) if v['k'] == 'i' else (('a', v['n']) if v['k'] == 'a' else None)


def addr_base(f, v):
    """address operand -> (base value key, constant offset) following constant GEPs/bitcasts only"""
    off = 0
    while v['k'] == 'i':
        i = f.insts[v['id']]
        if i.op == 'getelementptr' and not i.d['var_steps']:
            off += i.d['const_off']; v = i.ops[0]
        elif i.op == 'bitcast':
            v = i.ops[0]
        else:
            break
    return vk(v), off


def pos_key(g, v):
    """position read through address v: (key, offset). Pointer form: key = base SSA pointer. Index form s[i + c]: key = ('x', base pointer, index value)"""
    i = inst_of(g, v)
    if i is not None and i.op == 'getelementptr' and len(i.d['var_steps']) == 1 and i.d['var_steps'][0]['stride'] == 1:
        base, off0 = addr_base(g, i.ops[0])
        idx = strip_int(g, i.d['var_steps'][0]['idx'])
        extra = 0
        ii = inst_of(g, idx)
        if ii is not None and ii.op == 'add' and const_of(ii.ops[1]) is not None and const_of(ii.ops[1]) < 16:
            extra = const_of(ii.ops[1]); idx = strip_int(g, ii.ops[0])
        return ('x', base, vk(idx)), off0 + i.d['const_off'] + extra
    return addr_base(g, v)


def forward_counter(g, key):
    """index value is a loop counter: a phi all of whose incoming values are the constant 0, the counter itself, or the counter plus one"""
    if key is None or key[0] != 'i': return False
    ph = g.insts.get(key[1])
    if ph is None or ph.op != 'phi': return False
    seen = set()
    def ok(v, depth=0):
        if const_of(v) == 0: return True
        k = vk(v)
        if k == key: return True
        if k is None or k[0] != 'i' or depth > 8: return False
        if k in seen: return True
        seen.add(k)
        ii = g.insts.get(k[1])
        if ii is None: return False
        if ii.op == 'add' and const_of(ii.ops[1]) == 1: return ok(ii.ops[0], depth + 1)
        if ii.op == 'phi': return all(ok(x, depth + 1) for x, _ in ii.d['incoming'])
        if ii.op in ('zext', 'sext', 'trunc'): return ok(ii.ops[0], depth + 1)
        return False
    return all(ok(v) for v, _ in ph.d['incoming'])


def skip_loops(f):
    """[(header block, phi inst, latch block, test load)]: while (nonascii(*c)) ++c;"""
    out = []
    for b, blk in enumerate(f.blocks):
        t = blk[-1]
        if t.op != 'br' or len(t.ops) != 3: continue
        c = cond_class(f, t.ops[0])
        if not c or c[0] != 'nonascii': continue
        ld = c[1]
        base, off = addr_base(f, ld.ops[0])
        if off != 0 or base is None or base[0] != 'i': continue
        phi = f.insts[base[1]]
        if phi.op != 'phi' or phi.bb != b: continue
        cont = f.succs[b][0] if c[2] else f.succs[b][1]      # successor taken when the byte is non-ASCII
        for v, pb in phi.d['incoming']:
            if pb == cont and f.succs[cont] == [b]:
                bb_, o = addr_base(f, v)
                if bb_ == ('i', phi.id) and o == 1:
                    out.append((b, phi, cont, ld))
    return out


def edge_dominates(f, a, b, x):
    """every path from entry to block x uses edge a->b"""
    if x == b and len(f.preds[b]) == 1 and f.preds[b][0] == a:
        return True
    seen = set(); st = [0]
    while st:
        n = st.pop()
        if n in seen: continue
        seen.add(n)
        if n == x: return False
        for s in f.succs[n]:
            if n == a and s == b: continue
            st.append(s)
    return True


def comparators(P):
    """functions reachable as bsearch/linear-scan comparators and the two-string functions they call"""
    pts = P.points_to()
    wrappers = set()
    for f in P.defined.values():
        for i, t in P.calls(f):
            if t == ('direct', 'bsearch'):
                wrappers |= {o[1] for o in pts.of(f, i.ops[4]) if o[0] == 'func'}
            elif t[0] == 'indirect':
                wrappers |= {o[1] for o in pts.of(f, t[1]) if o[0] == 'func'}
    cmps = {}
    for w in sorted(wrappers):
        if w not in P.defined: continue
        F = P.defined[w]
        for i, t in P.calls(F):
            if t[0] == 'direct' and t[1] in P.defined:
                g = P.defined[t[1]]
                if len(g.params) >= 2 and g.params[0]['ty'] == 'i8*' and g.params[1]['ty'] == 'i8*':
                    cmps[w] = (g, i)
    return wrappers, cmps


def _reach_defs(P, g):
    return [P.defined[n] for n in P.reachable_from([g.name]) if n in P.defined]


def features_of(P, g, call=None):
    """capabilities of a comparator: 'skip' = it (or a helper it calls) tests bytes for non-ASCII; 'prefix' = it compares a counter with its length
    parameter and the wrapper passes a non-zero constant for it"""
    skip = False
    for h in _reach_defs(P, g):
        for b_, blk in enumerate(h.blocks):
            for i in blk:
                if i.op == 'icmp' or (i.op == 'br' and len(i.ops) == 3):
                    c = cond_class(h, {'k': 'i', 'id': i.id}) if i.op == 'icmp' else None
                    if c and c[0] == 'nonascii': skip = True
    counter = None
    def from_param(h, n, v, d=0):
        v = strip_int(h, v)
        if v == {'k': 'a', 'n': n}: return True
        i_ = inst_of(h, v)
        if i_ is None or d > 5: return False
        if i_.op == 'phi': return any(from_param(h, n, x, d + 1) for x, _ in i_.d['incoming'] if vk(x) != ('i', i_.id))
        if i_.op in ('add', 'sub'): return any(from_param(h, n, x, d + 1) for x in i_.ops)
        return False
    if len(g.params) >= 3 and g.params[2]['bits'] in (32, 64) and not g.params[2]['ty'].endswith('*'):
        # the length parameter, and the parameters of helpers it is handed on to
        lenp = {(g.name, 2)}; closure = {h.name: h for h in _reach_defs(P, g)}; grow = True
        while grow:
            grow = False
            for h in closure.values():
                for ci, ct in P.calls(h):
                    if ct[0] != 'direct' or ct[1] not in closure: continue
                    for k_, a_ in enumerate(ci.ops):
                        if any(hn == h.name and from_param(h, pn, a_) for hn, pn in list(lenp)) and (ct[1], k_) not in lenp:
                            lenp.add((ct[1], k_)); grow = True
        for hn, pn in lenp:
            h = closure.get(hn) or (g if hn == g.name else None)
            if h is None: continue
            for i in h.all_insts():
                if i.op == 'icmp' and any(from_param(h, pn, v) for v in i.ops):
                    counter = i
    nconst = const_of(call.ops[2]) if (call is not None and len(call.ops) > 2) else None
    prefix = counter is not None and (nconst is None or nconst != 0)
    return {'skip': skip, 'prefix': prefix, 'n': nconst}


def strip_int(g, v):
    while v['k'] == 'i' and g.insts[v['id']].op in ('sext', 'zext', 'trunc'):
        v = g.insts[v['id']].ops[0]
    return v


def _lang_root(f, v, depth=0):
    """the pointer a value is derived from by loads of fields / GEPs / casts / integer conversions (the language table a flag or a word array belongs to)"""
    while depth < 12:
        if v['k'] == 'a' and f.params[v['n']]['ty'] == '%' + LANG_STRUCT + '*': return ('a', v['n'])
        if v['k'] != 'i': break
        i = f.insts[v['id']]
        if (i.d.get('ty') or '') == '%' + LANG_STRUCT + '*' and i.op not in ('bitcast',): return ('i', i.id)
        if i.op in ('load', 'getelementptr', 'bitcast', 'zext', 'sext', 'trunc'): v = i.ops[0]
        elif i.op == 'icmp' and const_of(i.ops[1]) == 0: v = i.ops[0]
        elif i.op == 'and' and const_of(i.ops[1]) is not None: v = i.ops[0]
        else: break
        depth += 1
    return vk(v)


def _field_of(P, f, v, depth=0):
    """name of the language-table member (plain or bit-field) a flag value was read from: the loaded bits that can influence v are traced back through masks and shifts"""
    mem = P.members(LANG_STRUCT)
    def back(v, need, d=0):
        # need: mask of the bits of v that matter; returns (load inst, mask of loaded bits that matter) or None
        if v['k'] != 'i' or d > 10: return None
        i = f.insts[v['id']]
        if i.op == 'load': return (i, need & ((1 << (8 * (i.d.get('size') or 1))) - 1))
        if i.op in ('zext', 'sext'): return back(i.ops[0], need & ((1 << (i.d.get('src_bits') or 8)) - 1), d + 1)
        if i.op == 'trunc': return back(i.ops[0], need & ((1 << i.d['bits']) - 1), d + 1)
        if i.op == 'icmp' and const_of(i.ops[1]) == 0: return back(i.ops[0], (1 << (i.d.get('op_bits') or 64)) - 1, d + 1)
        if i.op == 'and' and const_of(i.ops[1]) is not None: return back(i.ops[0], need & const_of(i.ops[1]), d + 1)
        if i.op == 'lshr' and const_of(i.ops[1]) is not None: return back(i.ops[0], need << const_of(i.ops[1]), d + 1)
        if i.op == 'shl' and const_of(i.ops[1]) is not None: return back(i.ops[0], need >> const_of(i.ops[1]), d + 1)
        if i.op == 'xor' and const_of(i.ops[1]) is not None: return back(i.ops[0], need, d + 1)
        return None
    r = back(v, (1 << 64) - 1)
    if r is None: return None
    ld, mask = r
    base, off = addr_base(f, ld.ops[0])
    if off is None or mask == 0: return None
    hits = []
    for nm, (ob, sb) in mem.items():
        lo = ob - 8 * off
        if sb >= 8:
            if lo == 0 and sb == 8 * (ld.d.get('size') or 1): hits.append(nm)
            elif lo == 0 and sb == 8 and mask & 0xff: hits.append(nm)
        elif 0 <= lo < 64 and (mask >> lo) & ((1 << sb) - 1):
            if mask == (((1 << sb) - 1) << lo): hits.append(nm)
    return hits[0] if len(hits) == 1 else None


def dispatch_map(ctx, cfg, P):
    """(has_prefix, has_accents) -> comparator wrapper returned by get_comparer, by abstract evaluation on the four concrete flag combinations. get_comparer may take
    the language table or the two flags (their roles are read off the call sites: which field each argument is loaded from). Returns (map, problems)"""
    C = ctx.__dict__.setdefault('_dispatch', {})
    if cfg in C: return C[cfg]
    from .bitflow import Interp, State, Ptr, BV, Tag, Unmodelled
    gc = P.fn('get_comparer')
    wrappers, cmps = comparators(P)
    lf = {n: (o, sz) for o, (n, sz) in P.field_table(LANG_STRUCT).items()}
    seen = {}; problems = []
    by_ptr = any(p_['ty'].endswith('*') for p_ in gc.params)
    roles = {}
    if not by_ptr:
        for f in P.defined.values():
            for i, t in P.calls(f):
                if t == ('direct', gc.name):
                    for n, a in enumerate(i.ops[:len(gc.params)]):
                        fld = _field_of(P, f, a)
                        if fld in ('has_prefix', 'has_accents'):
                            if roles.get(n, fld) != fld: problems.append('get_comparer argument %d is fed from different flags at different call sites' % n)
                            roles[n] = fld
        if sorted(roles.values()) != ['has_accents', 'has_prefix']:
            problems.append('the roles of the parameters of get_comparer could not be read off its call sites (%s)' % roles)
            C[cfg] = (seen, problems, wrappers, cmps); return C[cfg]
    for hp in (False, True):
        for ha in (False, True):
            I = Interp(P); st = State()
            flags = {'has_prefix': hp, 'has_accents': ha}
            if by_ptr:
                st.mem.new('lang', 8, 0)
                def hook(I_, st_, ptr, nbytes, inst, as_ptr, flags=flags):
                    c0 = ptr.parts[0] if ptr.parts else ptr.coff()
                    vals_ = {n__: int(v__) for n__, v__ in flags.items()}
                    for other_ in ('is_sorted', 'compose'): vals_[other_] = I_.V.bit('lang.' + other_)      # (flags the dispatch must not depend on: unconstrained symbols)
                    fb = P.flag_load(LANG_STRUCT, c0, nbytes, vals_) if c0 is not None else None
                    if fb is not None: return BV(fb)
                    raise Unmodelled('get_comparer reads the language table at offset %s' % c0)
                st.mem.hooks = {'lang': hook}
                args = [Ptr('lang', 0) if p_['ty'].endswith('*') else BV.const(0, p_['bits'] or 32) for p_ in gc.params]
            else:
                args = [BV.const(int(flags[roles[n]]), p_['bits'] or 8) if n in roles else BV.const(0, p_['bits'] or 32) for n, p_ in enumerate(gc.params)]
            try:
                outs = I.run(gc, args, st)
            except Unmodelled as e:
                problems.append('get_comparer(%s, %s): %s' % (hp, ha, e)); continue
            tgt = None
            if len(outs) == 1 and isinstance(outs[0].ret, Ptr) and outs[0].ret.obj.startswith('f:'): tgt = outs[0].ret.obj[2:]
            if tgt is None or tgt not in P.defined:
                problems.append('get_comparer(%s, %s) does not return a library function (%s)' % (hp, ha, str(outs[0].ret)[:60] if outs else None)); continue
            seen[(hp, ha)] = tgt
    C[cfg] = (seen, problems, wrappers, cmps)
    return C[cfg]


def dispatch(ctx, rep):
    for cfg in (ctx.configs('path') if ctx.tier == 'thorough' else ['NsS']):
        P = ctx.prog(cfg)
        if cfg not in rep.configs: rep.configs.append(cfg)
        gc = P.fn('get_comparer')
        seen, problems, wrappers, cmps = dispatch_map(ctx, cfg, P)
        rep.rule('CMP-1', 'dispatch: get_comparer, evaluated abstractly on the four (has_prefix, has_accents) combinations of the language flags, returns a comparator wrapper '
                 'for each; that this wrapper implements exactly the matching rule of those flags is CMP-8 (where CMP-8 cannot decide: prefix cut-off present iff has_prefix, '
                 'accent-skip loops present iff has_accents, prefix wrappers pass the constant 4); every word search obtains its comparator from get_comparer applied to the '
                 'same language table it searches')
        rep.instances(len(wrappers), 2, 'comparator wrappers')
        where = loc_gc(gc)
        for pr in problems:
            rep.fail('get_comparer dispatches on the two language flags', where, 'get_comparer: %s' % pr[:120], detail=pr, key='CMP-1|eval|%s' % pr[:40])
        rep.check(set(seen) == {(True, True), (True, False), (False, True), (False, False)} or bool(problems), 'all four flag combinations are dispatched', where, 'get_comparer',
                  detail=sorted(map(str, seen)), sample={'dispatch': {str(k): v for k, v in seen.items()}})
        comparator_semantics(ctx, rep, P, cfg, seen)
        rep.rule('CMP-1', '')
        from . import e7
        for (hp, ha), tgt in sorted(seen.items()):
            r = e7.comparator(ctx, cfg, P, tgt, hp, ha)
            if r.decided: continue
            if tgt not in cmps:
                rep.notes.append('CMP-1: %s not in the recognised wrapper shape; capabilities not checked structurally' % tgt); continue
            g, call = cmps[tgt]
            fe = features_of(P, g, call)
            rep.check(fe['prefix'] == hp and fe['skip'] == ha,
                      'flags (has_prefix=%s, has_accents=%s) select %s (prefix cut-off: %s, accent skipping: %s)' % (hp, ha, base_name(g.name), fe['prefix'], fe['skip']),
                      where, 'get_comparer -> %s' % tgt, detail={'comparator': g.name, 'features': fe}, key='CMP-1|%s|%s' % (hp, ha))
            if fe['prefix']:
                rep.check(fe['n'] == 4, 'prefix wrapper %s passes the constant 4' % tgt, call.loc, tgt, detail=fe['n'], key='CMP-1|n|%s' % tgt)
        # every search site uses get_comparer of the language it searches
        ls = P.fn('lang_search')
        n = 0
        for f in P.defined.values():
            for i, t in P.calls(f):
                if t != ('direct', ls.name): continue
                n += 1
                cmp_args = [a for k, a in enumerate(i.ops[:len(ls.params)]) if ls.params[k]['ty'].endswith(')*')]
                tab_args = [a for k, a in enumerate(i.ops[:len(ls.params)]) if ls.params[k]['ty'].endswith('*') and not ls.params[k]['ty'].endswith(')*') and ls.params[k]['ty'] not in ('i8*',)]
                ci = inst_of(f, cmp_args[0]) if len(cmp_args) == 1 else None
                if ci is None or ci.op != 'call' or P.call_target(ci) != ('direct', gc.name) or not tab_args:
                    rep.notes.append('CMP-1: search site at %s not in a recognised shape: the same-language rule is not applied' % i.loc); continue
                r1 = {_lang_root(f, a) for a in ci.ops[:len(gc.params)]} - {None}
                r2 = {_lang_root(f, a) for a in tab_args} - {None}
                ok = len(r1) == 1 and r1 == r2
                rep.check(ok, 'search at %s uses get_comparer of the language it searches' % i.loc, i.loc, '%s search site' % base_name(f.name),
                          detail={'comparer_from': sorted(map(str, r1)), 'table_from': sorted(map(str, r2))}, sample={'site': i.loc}, key='CMP-1|site|%s' % base_name(f.name))
        rep.instances(n, 1, 'word search sites')
        word_readers(ctx, rep, P, wrappers)


def comparator_semantics(ctx, rep, P, cfg, dispatch_map):
    """CMP-8: each dispatched comparator against the reference matching rule, for all pairs of strings"""
    from . import strauto as SA
    rep.rule('CMP-8', 'semantics of the four dispatched comparators for ALL pairs of NUL-terminated strings, by abstract interpretation over a finite string abstraction: bytes are '
             'abstracted to (class, identity) with classes NUL / ASCII / non-ASCII, pairs of bytes to an order relation chosen once per pair, positions to their layout around '
             'the cursors (cells ahead of the hindmost cursor run-length abstracted, cells behind forgotten), the character counter saturates above every constant it is compared '
             'with; abstract states are merged at block entries until the fixpoint. A reference automaton consumes the same cells: with has_accents the non-ASCII bytes of both '
             'strings are ignored; the result must be 0 iff the strings are then equal or (has_prefix) the key is a prefix of the word at least 4 characters long, and otherwise '
             'have the sign of the first differing pair (end of string = NUL) under one byte order used throughout; no byte is read past a terminator, nothing is written')
    from . import e7
    for (hp, ha), wname in sorted(dispatch_map.items()):
        f = P.defined[wname]
        where = loc_gc(f)
        r = e7.comparator(ctx, cfg, P, wname, hp, ha)
        cons = '%s (has_prefix=%s, has_accents=%s)' % (base_name(wname), hp, ha)
        if r.status == 'found':
            e = r.exc
            rep.fail('%s: %s' % (cons, e.detail), e.loc, '%s: %s' % (base_name(wname), e.kind), detail={'kind': e.kind, 'detail': e.detail}, key='CMP-8|%s|%s' % (base_name(wname), e.kind))
        elif r.status == 'imprecise':
            rep.notes.append('CMP-8 not decided for %s: %s' % (cons, r.why))
            rep.ok('%s: outside the string abstraction (%s) - not decided, the structural rules CMP-3 / CMP-6 / CUR-1 apply' % (cons, r.why[:80]))
        elif r.status == 'ok':
            ex = r.ex
            rep.check(True, '%s agrees with the reference matching rule on all string pairs (%s byte order; %d abstract states, %d partitions, %d distinct returns)' % (
                cons, r.extra.get('order'), ex.nstates, ex.nforks, ex.nreturns), where, cons,
                sample={'comparator': base_name(wname), 'has_prefix': hp, 'has_accents': ha, 'abstract_states': ex.nstates, 'returns_checked': ex.nreturns}, key='CMP-8|%s' % base_name(wname))
        else:
            rep.fail('%s agrees with the reference matching rule on all string pairs' % cons, where, '%s deviates from the matching rule' % base_name(wname),
                     detail={'byte_order_assumed': r.extra.get('order'), 'disagreements': len(r.bad), 'first': r.bad[:2]}, key='CMP-8|%s' % base_name(wname))


def ensure_semantics(ctx, cfg, P):
    """run (cached) the semantic analyses of the string helpers so that the structural rules know where to stand down"""
    from . import e7
    try:
        seen, problems, wrappers, cmps = dispatch_map(ctx, cfg, P)
        for (hp, ha), tgt in seen.items(): e7.comparator(ctx, cfg, P, tgt, hp, ha)
    except AnalysisBroken:
        pass
    for role in P.roles('tokeniser'): e7.tokeniser(ctx, cfg, P, role)
    try: size = ctx.tables().str_size()
    except AnalysisBroken: size = None
    if size:
        for role in P.roles('lazy'): e7.lazy(ctx, cfg, P, role, size)
    for f, cur, src in writer_functions(P): e7.writer(ctx, cfg, P, f, cur, src)
    return decided_functions(ctx, cfg, P)


def writer_functions(P):
    """the phrase writer(s), found by role: library functions called on the encoding side with a word / separator string of a language table and a cursor:
    [(function, cursor parameter index, source parameter index)]"""
    if hasattr(P, '_writers'): return P._writers
    pts = P.points_to()
    strs = set()
    for g in P.globals.values():
        if g['ty'] == '%' + LANG_STRUCT and 'init' in g and g['init']['k'] == 'struct':
            ft = P.field_table(LANG_STRUCT)
            for fl in g['init']['fields']:
                nm = ft.get(fl['off'], ('',))[0]
                if nm == 'words' and fl['v']['k'] == 'array': strs |= {('global', e['name']) for e in fl['v']['elems'] if e['k'] == 'gref'}
                elif nm == 'separator' and fl['v']['k'] == 'gref': strs.add(('global', fl['v']['name']))
    out = {}
    enc = P.reachable_from(['polyseed_encode']) if 'polyseed_encode' in P.defined else set()
    for fn in sorted(enc):
        f = P.defined.get(fn)
        if f is None: continue
        for i, t in P.calls(f):
            if t[0] != 'direct' or t[1] not in P.defined: continue
            g = P.defined[t[1]]
            src = [n for n, a in enumerate(i.ops[:len(g.params)]) if g.params[n]['ty'] == 'i8*' and a['k'] in ('i', 'a') and (pts.of(f, a) & strs)]
            cur = [n for n, a in enumerate(i.ops[:len(g.params)]) if g.params[n]['ty'] == 'i8**']
            if len(src) == 1 and len(cur) == 1: out[g.name] = (g, cur[0], src[0])
            elif len(src) == 1 and not cur:
                # index form: (buffer, current length, source) -> new length
                bufs = [n for n, a in enumerate(i.ops[:len(g.params)]) if n != src[0] and g.params[n]['ty'] == 'i8*']
                lens = [n for n, a in enumerate(i.ops[:len(g.params)]) if not g.params[n]['ty'].endswith('*') and g.params[n].get('bits') in (32, 64)]
                if len(bufs) == 1 and len(lens) == 1 and g.d.get('ret_bits') in (32, 64): out[g.name] = (g, ('idx', bufs[0], lens[0]), src[0])
    P._writers = list(out.values())
    return P._writers


def decided_functions(ctx, cfg, P):
    """names of the functions whose behaviour on all strings the semantic analyses (CMP-8, TOK-1, LAZY-1, WRITER-1) decided - verified or refuted - in this
    configuration; the structural idiom rules about the same functions stand down for them"""
    from . import e7
    out = set()
    for k, r in getattr(ctx, '_e7', {}).items():
        if k[1] != cfg or not r.decided: continue
        out |= set(P.reachable_from([k[2]]))
    return out


def word_readers(ctx, rep, P, wrappers):
    rep.rule('CMP-7', 'who may read word bytes: on the decoding side the bytes of the word-list strings are read only inside the comparators that get_comparer '
             'dispatches (and the helpers they call), so no lookup can accept a token by a rule of its own; the other readers are the phrase writer on the '
             'encoding side and the set-up self-check. Every byte load / libc string call whose address may point (inclusion-based points-to) into a word '
             'string is attributed to its function')
    T = ctx.tables(); pts = P.points_to()
    wordobjs = set()
    for g in P.globals.values():
        if g['ty'] == '%' + LANG_STRUCT and 'init' in g and g['init']['k'] == 'struct':
            ft = P.field_table(LANG_STRUCT)
            for fl in g['init']['fields']:
                if ft.get(fl['off'], ('',))[0] == 'words' and fl['v']['k'] == 'array':
                    wordobjs |= {('global', e['name']) for e in fl['v']['elems'] if e['k'] == 'gref'}
    rep.instances(len(wordobjs), 10, 'word string objects')
    dec = set()
    for r in ('polyseed_decode', 'polyseed_decode_explicit', 'polyseed_load', 'polyseed_create', 'polyseed_crypt', 'polyseed_keygen', 'polyseed_store', 'polyseed_free'):
        if r in P.defined: dec |= P.reachable_from([r])
    cmp_closure = P.reachable_from(sorted(wrappers))
    defined = set(P.defined)
    other = defined - dec         # encoder-only, set-up-only (self-check) and unreachable functions
    allowed = cmp_closure | other | {r_.fn.name for r_ in P.roles('lazy')}      # (the lazy normaliser front end only tests for non-ASCII and copies: LAZY-1)
    readers = {}
    for f in P.defined.values():
        for i in f.all_insts():
            addrs = []
            if i.op == 'load' and i.d['bits'] == 8: addrs = [i.ops[0]]
            elif i.op == 'call' and not P.is_dbg(i):
                t = P.call_target(i)
                if t[0] == 'direct' and t[1] in ('strcmp', 'strncmp', 'memcmp', 'strlen', 'strncasecmp', 'strcasecmp', 'strchr', 'strstr', 'memchr'):
                    addrs = [o for o in i.ops[:2] if o['k'] in ('i', 'a', 'g', 'ce')]
            for a in addrs:
                if pts.of(f, a) & wordobjs:
                    readers.setdefault(f.name, i)
    for name, i in sorted(readers.items()):
        kind = 'comparator' if name in cmp_closure else ('not on the decoding side (encoder / set-up self-check)' if name in other else 'decoding-side function outside the comparators')
        rep.check(name in allowed, '%s reads word bytes as %s' % (base_name(name), kind), i.loc, base_name(name), detail={'first_read': i.loc, 'role': kind},
                  sample={'function': base_name(name), 'role': kind}, key='CMP-7|%s' % base_name(name))
    rep.check(any(n in cmp_closure for n in readers), 'the comparators are among the readers (vacuity guard)', loc_gc(P.fn('get_comparer')), 'get_comparer', key='CMP-7|vacuity')


def loc_gc(f):
    return '%s:%s' % ((f.file or '').replace('/repo/', ''), f.line)


def skip_normalised(ctx, rep):
    for cfg in (ctx.configs('path') if ctx.tier == 'thorough' else ['NsS']):
        P = ctx.prog(cfg)
        if cfg not in rep.configs: rep.configs.append(cfg)
        wrappers, cmps = comparators(P)
        rep.rule('CMP-3', 'contradiction rule: in a comparator that contains "skip non-ASCII" loops on a cursor, every byte read through that cursor that '
                 'feeds a branch (other than the skip test) or the result is read at offset 0 of a skip-normalised cursor value (the exit value of a '
                 'skip loop): a read such as key[1] looks at a raw byte the function elsewhere believes must be skipped, so a prefix that ends in an '
                 'accented letter is treated differently from the same prefix typed without the accent')
        n = 0
        decided = ensure_semantics(ctx, cfg, P)
        for w, (g, call) in sorted(cmps.items()):
            if w in decided and g.name in decided: n += 1; rep.ok('%s: decided semantically by CMP-8' % base_name(g.name)); continue
            sk = skip_loops(g)
            if not sk: continue
            n += 1
            norm = {phi.id for _, phi, _, _ in sk}
            skip_tests = {ld.id for _, _, _, ld in sk}
            fams = {a: cursor_family(g, a) for a in (0, 1)}
            for i in g.all_insts():
                if i.op != 'load' or i.d['bits'] != 8 or i.id in skip_tests: continue
                base, off = addr_base(g, i.ops[0])
                fam = [a for a in (0, 1) if base in fams[a]]
                if not fam: continue
                ok = off == 0 and base[0] == 'i' and base[1] in norm
                rep.check(ok, 'read of %s byte at %s is at offset 0 of a skip-normalised cursor' % ('key' if fam[0] == 0 else 'element', i.loc), i.loc,
                          '%s: %s[%d] read without skipping combining marks' % (base_name(g.name), 'key' if fam[0] == 0 else 'elm', off),
                          detail={'offset': off, 'cursor_is_skip_loop_exit': base[0] == 'i' and base[1] in norm},
                          sample={'function': g.name, 'site': i.loc, 'offset': off}, key='CMP-3|%s|%s[%d]' % (base_name(g.name), 'key' if fam[0] == 0 else 'elm', off))
        rep.rules[rep._cur]['instances'] += n      # comparators whose skip loops live in a helper are not in the recognised shape


def counter_pairing(ctx, rep):
    for cfg in (ctx.configs('path') if ctx.tier == 'thorough' else ['NsS']):
        P = ctx.prog(cfg)
        if cfg not in rep.configs: rep.configs.append(cfg)
        wrappers, cmps = comparators(P)
        rep.rule('CMP-6', 'prefix counter: in a prefix comparator the character counter starts so that the cut-off first applies at the 4th compared '
                 'character, is incremented by exactly 1, and every increment is dominated by the "bytes equal" outcome of the comparison of the two '
                 'cursor bytes in the same iteration (skipped accent bytes never count); the cut-off reads the key only; exact comparators have no cut-off')
        n = 0
        decided = ensure_semantics(ctx, cfg, P)
        for w, (g, call) in sorted(cmps.items()):
            if w in decided and g.name in decided: n += 1; rep.ok('%s: decided semantically by CMP-8' % base_name(g.name)); continue
            fe = features_of(P, g, call)
            if not fe['prefix']: continue
            n += 1
            cut = [i for i in g.all_insts() if i.op == 'icmp' and any(strip_int(g, v) == {'k': 'a', 'n': 2} for v in i.ops)]
            # prefix length measured in bytes (pointer difference of a cursor) where accent bytes are skipped: bytes are not letters
            def from_ptrdiff(v, d=0):
                i_ = inst_of(g, v)
                if i_ is None or d > 6: return False
                if i_.op == 'ptrtoint': return True
                if i_.op in ('add', 'sub', 'sext', 'zext', 'trunc', 'sdiv', 'udiv', 'phi'):
                    srcs = [x for x, _ in i_.d['incoming']] if i_.op == 'phi' else i_.ops
                    return any(from_ptrdiff(x, d + 1) for x in srcs)
                return False
            for c_ in cut:
                other_ = c_.ops[0] if strip_int(g, c_.ops[1]) == {'k': 'a', 'n': 2} else c_.ops[1]
                if fe['skip'] and from_ptrdiff(other_):
                    rep.fail('the prefix length compared with n counts letters, not bytes: in an accent-skipping comparator it must not be a pointer difference',
                             c_.loc, '%s: prefix length measured in bytes' % base_name(g.name), key='CMP-6|%s|bytes' % base_name(g.name))
            if len(cut) != 1:
                rep.notes.append('CMP-6: %s has %d comparisons with its length parameter: shape not recognised, rule not applied' % (g.name, len(cut))); continue
            c = cut[0]
            other = c.ops[0] if c.ops[1] == {'k': 'a', 'n': 2} else c.ops[1]
            phi = inst_of(g, other)
            ok = phi is not None and phi.op == 'phi' and len(phi.d['incoming']) == 2
            init = step = None
            if ok:
                for v, pb in phi.d['incoming']:
                    if const_of(v) is not None: init = const_of(v)
                    else:
                        a = inst_of(g, v)
                        if a is not None and a.op == 'add' and vk(a.ops[0]) == ('i', phi.id) and const_of(a.ops[1]) == 1: step = a
            if not (ok and init is not None and step is not None):
                rep.notes.append('CMP-6: %s: the compared value is not a unit-stride loop counter: shape not recognised, rule not applied' % g.name); continue
            rep.ok('%s: counter is a loop variable with constant start and unit stride' % base_name(g.name))
            # first iteration (1-based compared character) at which the cut-off predicate holds for n = 4
            def holds(iv, n=4):
                a, b = (iv, n) if c.ops[1] == {'k': 'a', 'n': 2} else (n, iv)
                return {'sge': a >= b, 'sgt': a > b, 'sle': a <= b, 'slt': a < b, 'uge': a >= b, 'ugt': a > b, 'ule': a <= b, 'ult': a < b, 'eq': a == b, 'ne': a != b}[c.d['pred']]
            first = None
            for it in range(1, 12):
                if holds(init + it - 1): first = it; break
            mono = all(holds(init + it - 1) for it in range(first or 1, 12)) if first else False
            rep.check(first == 4 and mono, 'cut-off applies from the 4th compared character on (start %d, predicate %s)' % (init, c.d['pred']), c.loc,
                      '%s prefix threshold' % base_name(g.name), detail={'first_iteration': first}, sample={'function': g.name, 'start': init, 'first': first},
                      key='CMP-6|%s|threshold' % base_name(g.name))
            # increment dominated by equality outcome
            eqedges = []
            for b, blk in enumerate(g.blocks):
                t = blk[-1]
                if t.op == 'br' and len(t.ops) == 3:
                    cc = cond_class(g, t.ops[0])
                    if cc and cc[0] == 'eq':
                        fams0 = cursor_family(g, 0); fams1 = cursor_family(g, 1)
                        b0, _ = addr_base(g, cc[1].ops[0]); b1, _ = addr_base(g, cc[2].ops[0])
                        if (b0 in fams0 and b1 in fams1) or (b0 in fams1 and b1 in fams0):
                            eqedges.append((b, g.succs[b][0] if cc[3] else g.succs[b][1]))
            if not eqedges:
                rep.notes.append('CMP-6: %s: byte-equality test not in recognised form (helper?): pairing rule not applied' % g.name); continue
            dom = any(edge_dominates_from_header(g, phi.bb, a, b2, step.bb) for a, b2 in eqedges)
            rep.check(dom, 'every increment of the character counter follows the "bytes equal" outcome in the same iteration', step.loc,
                      '%s: counter incremented without a matched character' % base_name(g.name), detail={'equality_edges': eqedges, 'increment_block': step.bb},
                      key='CMP-6|%s|pairing' % base_name(g.name))
        rep.rules[rep._cur]['instances'] += n


def edge_dominates_from_header(f, header, a, b, x):
    """within one iteration: every path from the loop header to block x uses edge a->b"""
    seen = set(); st = [header]
    first = True
    while st:
        n = st.pop()
        if n in seen: continue
        seen.add(n)
        if n == x and not first: return False
        first = False
        for s in f.succs[n]:
            if n == a and s == b: continue
            if s == header: continue
            st.append(s)
    return x != header


def cond_facts(g, v, outcome):
    """facts implied by i1 value v having the given outcome: set of ('nn', valuekey) / ('eq', a, b)"""
    cc = cond_class(g, v)
    out = set()
    if not cc: return out
    if cc[0] == 'nonascii':
        base, off = pos_key(g, cc[1].ops[0])
        if off == 0 and cc[2] == outcome: out.add(('nn', base))
    elif cc[0] == 'nul':
        base, off = pos_key(g, cc[1].ops[0])
        if off == 0 and cc[2] != outcome: out.add(('nn', base))
    elif cc[0] == 'constcmp' and cc[2] in ('ne', 'eq') and cc[3] != 0:
        base, off = pos_key(g, cc[1].ops[0])
        if off == 0 and (cc[2] == 'eq') == outcome: out.add(('nn', base))        # *c == ' ' implies non-NUL
    elif cc[0] == 'eq':
        b0, o0 = pos_key(g, cc[1].ops[0]); b1, o1 = pos_key(g, cc[2].ops[0])
        if o0 == 0 and o1 == 0 and cc[3] == outcome: out.add(('eq', b0, b1))
    return out


def switch_facts(g, t, succ):
    """switch (byte under a cursor): on a case edge the byte equals the case constant, on the default edge it differs from every case constant"""
    ld = byte_load(g, t.ops[0])
    if ld is None: return set()
    key, off = pos_key(g, ld.ops[0])
    if off != 0: return set()
    cases_here = [c for c, tb in t.d['cases'] if tb == succ]
    if succ == t.d['default'] and not cases_here:
        return {('nn', key)} if any(c == 0 for c, _ in t.d['cases']) else set()
    if cases_here and succ != t.d['default'] and all(c != 0 for c in cases_here):
        return {('nn', key)}
    return set()


def nonnul_dataflow(g):
    """forward must-analysis: IN[b] = facts (byte under SSA cursor value known non-NUL / two bytes equal) holding on every path to b.
    SSA values are immutable, so nothing is killed; short-circuit conditions (phi of i1 with constant-false arms) are handled."""
    nb = len(g.blocks)
    TOP = None
    IN = {b: TOP for b in range(nb)}; IN[0] = set()
    EDGE = {}
    def meet(a, b):
        if a is TOP: return b
        if b is TOP: return a
        return a & b
    changed = True
    it = 0
    while changed and it < 50:
        changed = False; it += 1
        for b in range(nb):
            if IN[b] is TOP: continue
            t = g.blocks[b][-1]
            succs = g.succs[b]
            for k, s_ in enumerate(succs):
                f = set(IN[b])
                if t.op == 'switch':
                    f |= switch_facts(g, t, s_)
                if t.op == 'br' and len(t.ops) == 3 and succs[0] != succs[1]:
                    outcome = (k == 0)
                    ci = inst_of(g, t.ops[0])
                    while ci is not None and ci.op == 'xor' and const_of(ci.ops[1]) == 1:      # !x : same condition, flipped outcome
                        outcome = not outcome; ci = inst_of(g, ci.ops[0])
                    if ci is not None and ci.op == 'phi' and ci.bb == b:
                        if outcome:
                            acc = TOP
                            for v, pb in ci.d['incoming']:
                                if const_of(v) == 0: continue       # this arm cannot make the condition true
                                e = EDGE.get((pb, b))
                                if e is None: acc = meet(acc, set()) if False else acc; continue
                                acc = meet(acc, e | (cond_facts(g, v, True) if const_of(v) is None else set()))
                            if acc is not TOP: f |= acc
                        else:
                            acc = TOP
                            for v, pb in ci.d['incoming']:
                                if const_of(v) == 1: continue
                                e = EDGE.get((pb, b))
                                if e is None: continue
                                acc = meet(acc, e | (cond_facts(g, v, False) if const_of(v) is None else set()))
                            if acc is not TOP: f |= acc
                    else:
                        f |= cond_facts(g, {'k': 'i', 'id': ci.id}, outcome) if ci is not None else set()
                if EDGE.get((b, s_)) != f:
                    EDGE[(b, s_)] = f; changed = True
        for b in range(1, nb):
            acc = TOP
            for p_ in g.preds[b]:
                if (p_, b) in EDGE: acc = meet(acc, EDGE[(p_, b)])
            if acc is not TOP and acc != IN[b]:
                IN[b] = acc; changed = True
    return IN


def known_nonnul(facts, val, depth=0):
    if facts is None: return False
    if ('nn', val) in facts: return True
    if depth < 3:
        for f in facts:
            if f[0] == 'eq':
                other = f[2] if f[1] == val else (f[1] if f[2] == val else None)
                if other is not None and known_nonnul(facts - {f}, other, depth + 1): return True
    return False


def cursor_safety(ctx, rep):
    """C14 clause 2 / C08 clause 4: no advance past, and no read beyond, a byte not known to be non-NUL"""
    for cfg in (ctx.configs('path') if ctx.tier == 'thorough' else ['NsS']):
        P = ctx.prog(cfg)
        if cfg not in rep.configs: rep.configs.append(cfg)
        wrappers, cmps = comparators(P)
        targets = {}
        decided = ensure_semantics(ctx, cfg, P)
        for w, (g, call) in cmps.items(): targets[g.name] = (g, [0, 1])
        for r_ in P.roles('tokeniser'): targets[r_.fn.name] = (r_.fn, [r_.args['buf']])
        for r_ in P.roles('lazy'): targets[r_.fn.name] = (r_.fn, [r_.args['src']])
        for g_, cur_, src_ in writer_functions(P): targets[g_.name] = (g_, [src_])
        ndec = sorted(base_name(n_) for n_ in targets if n_ in decided)
        if ndec: rep.ok('decided semantically (CMP-8 / TOK-1 / LAZY-1 / WRITER-1), structural cursor rule not needed: %s' % ', '.join(ndec), {'functions': ndec})
        targets = {n_: v_ for n_, v_ in targets.items() if n_ not in decided}
        rep.rule('CUR-1', 'NUL-terminated cursor discipline (comparators, str_split, write_str, utf8_nfkd_lazy): an input cursor is advanced by exactly one '
                 'byte and only where the byte under it is known non-NUL on every path (must-dataflow over the outcomes of *c != 0, of the non-ASCII '
                 'test, of *c == <non-zero constant>, and of equality with a byte known non-NUL); c[k] with k >= 1 is read only for k = 1 and only where '
                 'c[0] is known non-NUL')
        rep.instances(len(targets) + len(ndec), 4, 'cursor functions')
        nadv = 0
        for name, (g, args) in sorted(targets.items()):
            fams = {a: cursor_family(g, a) for a in args}
            IN = nonnul_dataflow(g)
            for i in g.all_insts():
                if i.op == 'getelementptr' and not i.d['var_steps'] and i.d['res_elem_size'] == 1:
                    base, off = addr_base(g, i.ops[0])
                    fam = [a for a in args if base in fams[a]]
                    if not fam: continue
                    users_other = [u for u in g.all_insts() if u.op in ('phi', 'getelementptr', 'store', 'call', 'ret') and
                                   any(v == {'k': 'i', 'id': i.id} for v in (u.ops if u.op != 'phi' else [x for x, _ in u.d['incoming']]))]
                    k = off + i.d['const_off']
                    nadv += 1
                    nn = known_nonnul(IN[i.bb], base)
                    ok = k == 1 and nn
                    what = 'advance' if users_other else 'read of c[%d]' % k
                    rep.check(ok, '%s at %s: cursor byte known non-NUL and step is 1' % (what, i.loc), i.loc, '%s: %s past a byte not known non-NUL' % (base_name(g.name), what),
                              detail={'step': k, 'known_non_nul': nn}, sample={'function': g.name, 'site': i.loc, 'kind': what} if nadv <= 3 else None,
                              key='CUR-1|%s|%s|%s' % (base_name(g.name), what, i.loc.split(':')[-1]))
        # index form: s[i] with i a loop counter
        for name, (g, args) in sorted(targets.items()):
            fams = {a_: cursor_family(g, a_) for a_ in args}
            IN = nonnul_dataflow(g)
            idx_uses = {}       # index value key -> set of string base keys it indexes
            for i in g.all_insts():
                if i.op == 'load' and i.d['bits'] == 8:
                    key, off = pos_key(g, i.ops[0])
                    if isinstance(key, tuple) and key and key[0] == 'x' and any(key[1] in fams[a_] for a_ in args):
                        idx_uses.setdefault(key[2], set()).add(key[1])
                        if off >= 1:
                            nadv += 1
                            nn = known_nonnul(IN[i.bb], key)
                            rep.check(off == 1 and nn, 'read of s[i+%d] at %s: s[i] known non-NUL' % (off, i.loc), i.loc,
                                      '%s: read of s[i+%d] past a byte not known non-NUL' % (base_name(g.name), off), detail={'offset': off, 'known_non_nul': nn},
                                      key='CUR-1|%s|read of s[i+%d]|%s' % (base_name(g.name), off, i.loc.split(':')[-1]))
            for ik, bases in sorted(idx_uses.items(), key=str):
                nadv += 1
                fc = forward_counter(g, ik)
                site = next((i for i in g.all_insts() if i.op == 'load' and i.d['bits'] == 8 and pos_key(g, i.ops[0])[0] in [('x', b_, ik) for b_ in bases]), None)
                rep.check(fc, 'string indexed by a forward counter (starts at 0, steps by 1): every index reached has only non-NUL bytes before it', site.loc if site else loc_gc(g),
                          '%s: input string read at an index that is not a forward counter from 0' % base_name(g.name), detail={'index': str(ik)}, key='CUR-1|%s|index shape|%s' % (base_name(g.name), str(ik)))
            for i in g.all_insts():
                if i.op == 'add' and const_of(i.ops[1]) == 1 and vk(i.ops[0]) in idx_uses:
                    # an increment that feeds the index back (loop-carried)
                    ph = inst_of(g, i.ops[0])
                    if ph is None or ph.op != 'phi' or not any(vk(v_) == ('i', i.id) for v_, _ in ph.d['incoming']): continue
                    for base in idx_uses[vk(i.ops[0])]:
                        nadv += 1
                        nn = known_nonnul(IN[i.bb], ('x', base, vk(i.ops[0])))
                        rep.check(nn, 'index advance at %s: the byte at the current index is known non-NUL' % i.loc, i.loc,
                                  '%s: index advanced past a byte not known non-NUL' % base_name(g.name), detail={'string': str(base), 'known_non_nul': nn},
                                  key='CUR-1|%s|index advance|%s' % (base_name(g.name), i.loc.split(':')[-1]))
        rep.instances(nadv + (3 if ndec else 0), 3, 'cursor advance / look-ahead sites')


def tokeniser_semantics(ctx, rep):
    """TOK-1: the tokeniser against the reference tokenisation, for all NUL-terminated buffers"""
    from . import strauto as SA
    for cfg in (ctx.configs('path') if ctx.tier == 'thorough' else ['NsS']):
        P = ctx.prog(cfg)
        if cfg not in rep.configs: rep.configs.append(cfg)
        rep.rule('TOK-1', 'semantics of str_split for ALL NUL-terminated buffers, by abstract interpretation over the finite string abstraction (byte classes NUL / space / other; '
                 'layout of positions around the cursor; abstract states merged at block entries until the fixpoint) against a reference automaton: the result is the number of '
                 'segments between single ASCII spaces with one empty last segment dropped (so a single trailing space is tolerated and every other empty token counts), 17 '
                 'standing for "more than 16"; words[k] is set, in order, to the first byte of segment k; exactly the separators that end the first 16 segments are overwritten '
                 'with NUL and no other byte of the buffer is modified; words[16] is never written; no byte is read past the terminator')
        from . import e7
        roles = P.roles('tokeniser')
        rep.instances(len(roles), 1, 'tokeniser functions (found by role: called with the normalised buffer and the local word array)')
        for role in roles:
            f = role.fn
            where = loc_gc(f); cons = base_name(f.name)
            r = e7.tokeniser(ctx, cfg, P, role)
            if r.status == 'found':
                e = r.exc
                rep.fail('%s: %s' % (cons, e.detail), e.loc if e.loc != '?' else where, '%s: %s' % (cons, e.kind), detail={'kind': e.kind, 'detail': e.detail}, key='TOK-1|%s|%s' % (cons, e.kind))
            elif r.status == 'imprecise':
                rep.notes.append('TOK-1 not decided for %s: %s' % (cons, r.why))
                rep.ok('%s: outside the string abstraction (%s) - not decided, see notes' % (cons, r.why[:80]))
            else:
                rep.check(r.status == 'ok', '%s agrees with the reference tokenisation on all buffers (%d abstract states, %d distinct returns)' % (cons, r.ex.nstates, r.ex.nreturns), where,
                          '%s deviates from the reference tokenisation' % cons, detail={'disagreements': len(r.bad), 'first': r.bad[:2]},
                          sample={'function': cons, 'abstract_states': r.ex.nstates, 'returns_checked': r.ex.nreturns}, key='TOK-1|%s' % cons)


def lazy_normaliser_semantics(ctx, rep):
    """LAZY-1: utf8_nfkd_lazy against its reference behaviour, for all NUL-terminated strings"""
    from . import strauto as SA
    for cfg in (ctx.configs('path') if ctx.tier == 'thorough' else ['NsS']):
        P = ctx.prog(cfg)
        if cfg not in rep.configs: rep.configs.append(cfg)
        size = ctx.tables().str_size()
        rep.rule('LAZY-1', 'semantics of utf8_nfkd_lazy(str, norm) for ALL NUL-terminated strings, by abstract interpretation over the finite string abstraction (byte classes '
                 'NUL / ASCII / non-ASCII and whatever further constants the code compares bytes with; the copy counter is kept exactly) against a reference automaton: if a '
                 'non-ASCII byte occurs among the first sizeof(polyseed_str)-1 bytes before the terminator, the injected u8_nfkd is called exactly once with (str, norm) and its '
                 'result is returned; otherwise bytes 0..L-1 (L = length, capped at sizeof-1) are copied in order to norm[0..L-1], norm[L] = 0 and L is returned; str is not '
                 'modified, nothing is read past its terminator, nothing is written past norm[sizeof-1]')
        from . import e7
        roles = P.roles('lazy')
        rep.instances(len(roles), 1, 'lazy normaliser front ends (found by role: hand two of their parameters to dep:u8_nfkd)')
        for role in roles:
            f = role.fn
            where = loc_gc(f); cons = base_name(f.name)
            r = e7.lazy(ctx, cfg, P, role, size)
            if r.status == 'found':
                e = r.exc
                rep.fail('%s: %s' % (cons, e.detail), e.loc if e.loc != '?' else where, '%s: %s' % (cons, e.kind), detail={'kind': e.kind, 'detail': e.detail}, key='LAZY-1|%s|%s' % (cons, e.kind))
            elif r.status == 'imprecise':
                rep.notes.append('LAZY-1 not decided for %s: %s' % (cons, r.why))
                rep.ok('%s: outside the string abstraction (%s) - not decided, the structural rules LAZY-2 / HELP-2 apply' % (cons, r.why[:80]))
                _lazy_tested_bytes(P, rep, f, cons, role)
            else:
                rep.check(r.status == 'ok', '%s agrees with the reference behaviour on all strings (%d abstract states, %d distinct returns)' % (cons, r.ex.nstates, r.ex.nreturns), where,
                          '%s deviates from "normalise iff non-ASCII, else copy"' % cons, detail={'disagreements': len(r.bad), 'first': r.bad[:2]},
                          sample={'function': f.name, 'abstract_states': r.ex.nstates, 'returns_checked': r.ex.nreturns}, key='LAZY-1|%s' % cons)


def _lazy_tested_bytes(P, rep, f, cons, role=None):
    """LAZY-2 (structural companion of LAZY-1, also applied when the string abstraction gives up): every input byte the ASCII fast path copies to
    the output was itself put to the non-ASCII test on the way (same position), so no untested byte can slip past the normaliser"""
    dom = f.dominators()
    tests = []
    for b, blk in enumerate(f.blocks):
        t = blk[-1]
        if t.op == 'br' and len(t.ops) == 3:
            c = cond_class(f, t.ops[0])
            if c and c[0] == 'nonascii': tests.append((b, pos_key(f, c[1].ops[0])))
    fam_out = cursor_family(f, role.args['out'] if role else 1)
    for i in f.all_insts():
        if i.op != 'store': continue
        l = byte_load(f, i.ops[0])
        if l is None: continue
        base = pos_key(f, i.ops[1])[0]
        root = base[1] if isinstance(base, tuple) and base and base[0] == 'x' else base
        if root not in fam_out: continue
        k = pos_key(f, l.ops[0])
        ok = any(tk == k and tb in dom[i.bb] for tb, tk in tests)
        rep.check(ok, 'the byte copied to the output at %s is the byte that passed the non-ASCII test (same position)' % i.loc, i.loc,
                  '%s copies a byte that was not tested for non-ASCII' % cons, detail={'copied_from': str(k), 'tested_positions': [str(t[1]) for t in tests]}, key='LAZY-2|%s|%s' % (cons, i.loc.split(':')[-1]))


def conj_terms(g, v):
    return []


def conds_for_edges(g, b, t):
    return []


def nfkd_before_split(ctx, rep):
    for cfg in (ctx.configs('path') if ctx.tier == 'thorough' else ['NsS']):
        P = ctx.prog(cfg)
        if cfg not in rep.configs: rep.configs.append(cfg)
        rep.rule('CMP-2', 'in both decoders utf8_nfkd_lazy(str, buf) dominates str_split(buf, words) on the same local buffer, and the tokens searched '
                 'are the ones str_split produced: accents reach the comparators as separate non-ASCII bytes in whatever form the user typed them')
        n = 0
        toks = {r_.fn.name: r_ for r_ in P.roles('tokeniser')}
        lazies = {r_.fn.name: r_ for r_ in P.roles('lazy')}
        if not toks: raise AnalysisBroken('no tokeniser found (a function called with the buffer the lazy normaliser filled and the local word array)')
        for f in P.defined.values():
            calls = list(P.calls(f))
            sp = [(i, toks[t[1]]) for i, t in calls if t[0] == 'direct' and t[1] in toks]
            for s_, tr in sp:
                n += 1
                nk = [(i, lazies[t[1]]) for i, t in calls if t[0] == 'direct' and t[1] in lazies and f.inst_dominates(i, s_)]
                ok = False
                def parked(v):
                    # a pointer re-loaded from a member of a context struct the function only reads: (root of the struct address, offset), else None
                    from .ir import strip_casts as sc_
                    r_, o_ = sc_(f, v)
                    if o_ != 0 or r_['k'] != 'i' or f.insts[r_['id']].op != 'load': return None
                    ra, oa = sc_(f, f.insts[r_['id']].ops[0])
                    if oa is None or ra['k'] != 'a': return None
                    if any(i_.op == 'store' and sc_(f, i_.ops[1])[0] == ra for i_ in f.all_insts()): return None
                    for i_, t_ in calls:
                        for kk_, a_ in enumerate(i_.ops):
                            if a_['k'] in ('i', 'a') and sc_(f, a_)[0] == ra and not (t_[0] == 'direct' and t_[1] in P.defined and not P.writes_through(t_[1], kk_)): return None
                    return (ra['n'], oa)
                for k, lr in nk:
                    a, _ = addr_base(f, k.ops[lr.args['out']]); b, _ = addr_base(f, s_.ops[tr.args['buf']])
                    if a == b and a is not None and a[0] == 'i' and f.insts[a[1]].op == 'alloca': ok = True
                    pa, pb = parked(k.ops[lr.args['out']]), parked(s_.ops[tr.args['buf']])
                    if pa is not None and pa == pb: ok = True       # (the same member of a read-only context struct: the same pointer)
                rep.check(ok, 'tokeniser call at %s works on the buffer a dominating lazy-normaliser call filled' % s_.loc, s_.loc, '%s tokenises un-normalised input' % base_name(f.name),
                          sample={'function': f.name, 'split': s_.loc}, key='CMP-2|%s' % base_name(f.name))
                buf = addr_base(f, s_.ops[tr.args['buf']])[0]
                if ok and buf is not None:
                    def root(v):
                        while v['k'] == 'i' and f.insts[v['id']].op in ('getelementptr', 'bitcast'): v = f.insts[v['id']].ops[0]
                        return vk(v)
                    edits = [i for i in f.all_insts() if i.op == 'store' and root(i.ops[1]) == buf]
                    rep.check(not edits, 'the tokeniser sees the normaliser\'s output unedited: %s itself stores nothing into the phrase buffer' % base_name(f.name), edits[0].loc if edits else s_.loc,
                              '%s edits the normalised phrase before / after tokenising' % base_name(f.name), detail=[e.loc for e in edits[:3]], key='CMP-2|%s|edit' % base_name(f.name))
                W = addr_base(f, s_.ops[tr.args['words']])[0]
                users = [i for i, t in calls if i is not s_ and f.inst_dominates(s_, i) and any(a_['k'] in ('i', 'a') and addr_base(f, a_)[0] == W for a_ in i.ops)
                         and not (t[0] == 'dep' and t[1] == 'memzero')]
                if not users:
                    # the array belongs to a caller (context struct / caller-provided array): some other call site in the program receives its base address
                    pt_ = P.points_to(); Wo = pt_.of(f, s_.ops[tr.args['words']])
                    for g_ in P.defined.values():
                        if g_ is f: continue
                        for i_, t_ in P.calls(g_):
                            if t_[0] != 'direct' or t_[1] not in P.defined or t_[1] in toks or t_[1] == f.name: continue
                            if any(a_['k'] in ('i', 'a') and pt_.is_base(g_, a_) and (pt_.of(g_, a_) & Wo) and all(o_[0] == 'alloca' for o_ in pt_.of(g_, a_)) for a_ in i_.ops): users.append(i_)
                rep.check(bool(users), 'the token array the tokeniser filled is handed to the phrase search', s_.loc, '%s: tokens are not searched' % base_name(f.name), key='CMP-2|%s|tokens' % base_name(f.name))
        rep.instances(n, 1, 'tokeniser call sites')
    tokeniser_semantics(ctx, rep)
