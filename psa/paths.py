"""Walk one CFG path of a function: resolve phis by predecessor, fold constants, prune infeasible paths,
record branch facts (value == / != constant)."""
from .ir import const_of

MASK = lambda b: (1 << b) - 1


class Walk:
    def __init__(self, P, f, path, prune=True):
        self.P = P; self.f = f; self.path = path; self.prune = prune
        self.env = {}        # inst id -> const int
        self.alias = {}      # phi inst id -> resolved valref on this path
        self.facts = []      # (valref_key, 'eq'|'ne', const)
        self.events = []     # instructions in execution order (phis excluded)
        self.taken = {}      # br inst id -> successor taken
        self.feasible = True
        self._run()

    def resolve(self, v):
        """follow phi aliases on this path"""
        n = 0
        while v['k'] == 'i' and v['id'] in self.alias and n < 64:
            v = self.alias[v['id']]; n += 1
        return v

    def val(self, v):
        v = self.resolve(v)
        c = const_of(v)
        if c is not None:
            return c
        if v['k'] == 'i':
            return self.env.get(v['id'])
        return None

    def key(self, v):
        v = self.resolve(v)
        if v['k'] == 'i': return ('i', v['id'])
        if v['k'] == 'a': return ('a', v['n'])
        return None

    def _fold(self, i):
        op = i.op
        if op == 'icmp':
            a = self.val(i.ops[0]); b = self.val(i.ops[1])
            if a is None or b is None:
                # facts: value known != const
                ka = self.key(i.ops[0])
                if ka is not None and b is not None:
                    for (k, rel, c) in self.facts:
                        if k == ka and c == b:
                            if i.d['pred'] == 'eq': return 1 if rel == 'eq' else 0
                            if i.d['pred'] == 'ne': return 0 if rel == 'eq' else 1
                return None
            bits = i.d['op_bits']
            def s(x): return x - (1 << bits) if x >> (bits - 1) else x
            p = i.d['pred']
            r = {'eq': a == b, 'ne': a != b, 'ult': a < b, 'ule': a <= b, 'ugt': a > b, 'uge': a >= b,
                 'slt': s(a) < s(b), 'sle': s(a) <= s(b), 'sgt': s(a) > s(b), 'sge': s(a) >= s(b)}[p]
            return int(r)
        if op in ('zext', 'trunc', 'bitcast'):
            a = self.val(i.ops[0])
            return None if a is None else a & MASK(i.d['bits'])
        if op == 'sext':
            a = self.val(i.ops[0])
            if a is None: return None
            sb = i.d['src_bits']
            if a >> (sb - 1): a |= MASK(i.d['bits']) & ~MASK(sb)
            return a
        if op in ('and', 'or', 'xor', 'add', 'sub', 'mul', 'shl', 'lshr'):
            a = self.val(i.ops[0]); b = self.val(i.ops[1])
            if a is None or b is None: return None
            m = MASK(i.d['bits'])
            return {'and': a & b, 'or': a | b, 'xor': a ^ b, 'add': (a + b) & m, 'sub': (a - b) & m, 'mul': (a * b) & m,
                    'shl': (a << b) & m if b < i.d['bits'] else 0, 'lshr': a >> b}[op]
        if op == 'select':
            c = self.val(i.ops[0])
            if c is None: return None
            return self.val(i.ops[1] if c else i.ops[2])
        return None

    def _run(self):
        f = self.f
        prev = None
        for n, b in enumerate(self.path):
            blk = f.blocks[b]
            # phis read their inputs simultaneously
            newalias = {}
            for i in blk:
                if i.op != 'phi': break
                for v, pb in i.d['incoming']:
                    if pb == prev:
                        newalias[i.id] = self.resolve(v)
            self.alias.update(newalias)
            for i in blk:
                if i.op == 'phi': continue
                if self.P.is_dbg(i): continue
                c = self._fold(i)
                if c is not None:
                    self.env[i.id] = c
                self.events.append(i)
                if i.op == 'br' and len(i.ops) == 3 and n + 1 < len(self.path):
                    nxt = self.path[n + 1]
                    succ = f.succs[b]      # [true, false]
                    want = 1 if nxt == succ[0] else 0
                    if succ[0] == succ[1]: continue
                    self.taken[i.id] = want
                    cv = self.val(i.ops[0])
                    if cv is not None and cv != want:
                        self.feasible = False
                        if self.prune: return
                    self._learn(i.ops[0], want)
                elif i.op == 'switch' and n + 1 < len(self.path):
                    cv = self.val(i.ops[0]); nxt = self.path[n + 1]
                    if cv is not None:
                        tgt = dict((c, t) for c, t in i.d['cases']).get(cv, i.d['default'])
                        if tgt != nxt:
                            self.feasible = False; return
            prev = b

    def _learn(self, cond, outcome):
        cond = self.resolve(cond)
        if cond['k'] != 'i': return
        ci = self.f.insts[cond['id']]
        if ci.op == 'xor' and const_of(ci.ops[1]) == 1:       # !x
            return self._learn(ci.ops[0], 1 - outcome)
        if ci.op == 'icmp' and ci.d['pred'] in ('eq', 'ne'):
            k = self.key(ci.ops[0]); c = self.val(ci.ops[1])
            if k is None or c is None:
                k = self.key(ci.ops[1]); c = self.val(ci.ops[0])
            if k is not None and c is not None:
                rel = ci.d['pred']
                if not outcome: rel = 'ne' if rel == 'eq' else 'eq'
                self.facts.append((k, rel, c))
        elif ci.op in ('zext', 'trunc'):
            # i1 results of calls (zeroext i1): branch on the call result itself
            self._learn(ci.ops[0], outcome)
        elif ci.op == 'call':
            self.facts.append((('i', ci.id), 'ne' if outcome else 'eq', 0))

    def ret_value(self):
        last = self.events[-1]
        if last.op != 'ret' or not last.ops:
            return None
        return self.resolve(last.ops[0])

    def ret_class(self):
        """('const', c) | ('nonzero', valref) | ('value', valref) | None"""
        v = self.ret_value()
        if v is None: return None
        c = self.val(v)
        if c is not None: return ('const', c)
        k = self.key(v)
        for (kk, rel, c) in self.facts:
            if kk == k and rel == 'ne' and c == 0:
                return ('nonzero', v)
            if kk == k and rel == 'eq':
                return ('const', c)
        return ('value', v)

    def derived_from(self, v, root_id, allow_offset=False):
        """does valref v resolve (through bitcast / GEP / path phis) to instruction root_id? returns offset or None"""
        off = 0
        v = self.resolve(v)
        seen = set()
        while v['k'] == 'i':
            if v['id'] == root_id:
                return off
            if v['id'] in seen:
                return None          # a pointer walked around a loop: not a fixed offset from the root
            seen.add(v['id'])
            i = self.f.insts[v['id']]
            if i.op == 'bitcast':
                v = self.resolve(i.ops[0])
            elif i.op == 'getelementptr':
                if i.d['var_steps']:
                    off = None
                elif off is not None:
                    off += i.d['const_off']
                v = self.resolve(i.ops[0])
            elif i.op == 'load':
                # a pointer parked in a local (a context struct member): the value of the last store on this path to the same local at the same offset
                fwd = self._forward(i)
                if fwd is None: return None
                v = self.resolve(fwd)
            else:
                return None
        return None

    def _forward(self, ld):
        from .ir import strip_casts
        r, o = strip_casts(self.f, ld.ops[0])
        if o is None or r['k'] != 'i' or self.f.insts[r['id']].op != 'alloca': return None
        try: k = self.events.index(ld)
        except ValueError: return None
        for e in reversed(self.events[:k]):
            if e.op == 'store':
                r2, o2 = strip_casts(self.f, e.ops[1])
                if r2 == r:
                    if o2 == o: return e.ops[0]
                    if o2 is None: return None
            elif e.op == 'call' and any(strip_casts(self.f, a)[0] == r for a in e.ops):
                t = self.P.call_target(e)
                if t[0] == 'direct' and t[1] in self.P.defined and not any(strip_casts(self.f, a)[0] == r and self.P.writes_through(t[1], k_) for k_, a in enumerate(e.ops)):
                    continue      # the callee only reads the local (and writes through the pointers parked in it)
                if self.P.is_dbg(e) or (t[0] == 'direct' and t[1].startswith('llvm.lifetime')): continue
                return None      # the local's address was handed to a callee that may have rewritten it
        return None

    def derived_from_arg(self, v):
        """if v resolves through casts/GEPs to a function argument: (argno, offset)"""
        off = 0
        v = self.resolve(v)
        seen = set()
        while True:
            if v['k'] == 'a':
                return v['n'], off
            if v['k'] != 'i':
                return None
            if v['id'] in seen:
                return None
            seen.add(v['id'])
            i = self.f.insts[v['id']]
            if i.op == 'bitcast':
                v = self.resolve(i.ops[0])
            elif i.op == 'getelementptr':
                off = None if (off is None or i.d['var_steps']) else off + i.d['const_off']
                v = self.resolve(i.ops[0])
            elif i.op == 'load':
                fwd = self._forward(i)
                if fwd is None: return None
                v = self.resolve(fwd)
            else:
                return None

    def describe(self):
        out = []
        for i in self.events:
            if i.op == 'call':
                t = self.P.call_target(i)
                out.append('%s:%s' % ('dep' if t[0] == 'dep' else 'call', t[1] if t[0] != 'indirect' else '*'))
            elif i.op == 'ret':
                rc = self.ret_class()
                out.append('ret %s' % (rc[1] if rc and rc[0] == 'const' else (rc[0] if rc else 'void')))
        return out


def feasible_walks(P, f, unroll=0):
    ws = []
    for p in f.paths(unroll=unroll):
        w = Walk(P, f, p)
        if w.feasible:
            ws.append(w)
    return ws


def structural_walks(P, f, unroll=1):
    """all CFG paths (each back edge at most `unroll` times), without feasibility pruning: for rules about the shape of the code"""
    return [Walk(P, f, p, prune=False) for p in f.paths(unroll=unroll)]
