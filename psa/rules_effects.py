"""L-FRAME (C20, cited by C13/C16/C18): static-storage inventory, writer sets, who-may-call."""
from .frontend import AnalysisBroken
from .context import SETUP_FUNCS, EXTERNAL_ALLOWED, INTRINSIC_WRITES, DEP_WRITES
from .ir import base_name


def written_pointers(P, f, inst):
    """for a store / call instruction: list of operand valrefs that are written through"""
    if inst.op == 'store':
        return [inst.ops[1]]
    if inst.op in ('cmpxchg', 'atomicrmw'):
        return [inst.ops[0]]          # (atomic read-modify-write: a write to shared state all the same - atomicity removes the data race, not the dependence on other threads' calls)
    if inst.op == 'call' and not P.is_dbg(inst):
        t = P.call_target(inst)
        if t[0] == 'direct':
            n = t[1]
            for pre, w in INTRINSIC_WRITES.items():
                if n.startswith(pre):
                    return [inst.ops[k] for k in w]
            if n in P.defined:
                return []           # its own stores are visited in the callee
            if n in EXTERNAL_ALLOWED:
                return [inst.ops[k] for k in EXTERNAL_ALLOWED[n]['writes'] if k < len(inst.ops)]
            if n.startswith('llvm.'):
                return []
            # unknown external: every pointer argument may be written
            def isptr(a):
                if a['k'] == 'a': return f.params[a['n']]['ty'].endswith('*')
                if a['k'] == 'i': return (f.insts[a['id']].d.get('ty') or '').endswith('*')
                return a['k'] in ('g', 'ce')
            return [a for a in inst.ops if isptr(a)]
        if t[0] == 'dep':
            return [inst.ops[k] for k in DEP_WRITES.get(t[1], range(len(inst.ops))) if k < len(inst.ops)]
        if t[0] == 'indirect':
            return []               # resolved targets are defined functions (checked by who_may_call)
    return []


def mutable_globals(P):
    return {g['name']: g for g in P.globals.values() if not g['constant'] and not g['decl']}


def per_seed_reachable(P):
    """functions reachable from any externally visible function other than the two setup functions"""
    roots = [n for n, f in P.defined.items() if not f.local and n not in SETUP_FUNCS]
    return P.reachable_from(roots)


def frame(ctx, rep, cfgs=None):
    """L-FRAME. Returns dict of facts per configuration (for evidence)."""
    for cfg in cfgs or ctx.configs('effect'):
        P = ctx.prog(cfg); pts = P.points_to(); rep.configs.append(cfg)
        for s in SETUP_FUNCS:
            P.fn(s)
        M = mutable_globals(P)
        R = per_seed_reachable(P)
        setup_only = set(P.reachable_from(SETUP_FUNCS)) - R

        rep.rule('FRAME-1', 'inventory of static storage: every global / function-local static is either constant '
                 '(read-only after load) or in the setup-written set; no thread-local or function-local mutable statics')
        rep.instances(len(P.globals), 10, 'globals')
        nstr = 0
        for g in P.globals.values():
            where = '%s:%s' % (g.get('file', '?').replace('/repo/', ''), g.get('line', '?'))
            if g['constant'] and not g['decl'] and not g['tls'] and g['linkage'] == 'local' and g['name'].startswith('.str'):
                nstr += 1; continue          # anonymous string literals: counted once below
            if g['tls']:
                rep.fail('no thread-local storage', where, g['name'])
            elif g['decl'] and not g['constant']:
                rep.fail('no reference to mutable storage defined outside the library', where, g['name'])
            else:
                rep.ok('global %s: %s' % (g['name'], 'constant' if g['constant'] else 'mutable (writers checked by FRAME-2)'),
                       None if g['constant'] else {'global': g['name'], 'mutable': True, 'config': cfg})

        rep.ok('%d anonymous string-literal constants (word lists, names) are read-only data' % nstr)
        rep.rule('FRAME-2', 'every store / memset / memcpy / output argument of an external or injected call whose target '
                 'may be a non-constant global lies in a function reachable only from polyseed_inject / '
                 'polyseed_enable_features (never from a per-seed API function); every write target resolves to a '
                 'local, a caller-owned object, a block from the injected allocator, or such a global')
        nw = 0; writers = {}
        for f in P.defined.values():
            for i in f.all_insts():
                for ptr in written_pointers(P, f, i):
                    nw += 1
                    objs = pts.of(f, ptr)
                    if not objs:
                        if ptr['k'] == 'null':
                            continue
                        raise AnalysisBroken('write through a pointer with no resolved target at %s in %s' % (i.loc, f.name))
                    bad = False
                    for o in objs:
                        if o[0] == 'global':
                            g = P.globals.get(o[1])
                            if g is None or g['constant']:
                                rep.fail('no write to constant data', i.loc, '%s -> %s' % (f.name, o[1])); bad = True
                            else:
                                writers.setdefault(o[1], set()).add(f.name)
                                if f.name in R:
                                    rep.fail('mutable global %s is written by %s, which is reachable from a per-seed API '
                                             'function: shared state written after setup (data race between threads / hidden '
                                             'library state)' % (o[1], f.name), i.loc, '%s writes %s' % (base_name(f.name), o[1]),
                                             detail={'global': o[1], 'writer': f.name, 'config': cfg})
                                    bad = True
                        elif o[0] == 'func':
                            rep.fail('no write to code', i.loc, f.name); bad = True
                    if not bad:
                        rep.ok('write at %s in %s targets %s' % (i.loc, f.name, sorted(set(o[0] for o in objs))))
        rep.instances(nw, 20, 'write sites')
        for g in M:
            rep.info.setdefault('writers', {})[cfg + ':' + g] = sorted(writers.get(g, []))
        rep.rule('FRAME-4', 'the two pieces of library state are independent: each mutable global is written from exactly one of the set-up entry points '
                 '(the dependency table from polyseed_inject, the enabled-feature mask from polyseed_enable_features), so injecting functions cannot change '
                 'the feature mask and enabling features cannot change the injected functions')
        reach = {s_: set(P.reachable_from([s_])) for s_ in SETUP_FUNCS}
        for g in sorted(M):
            roots = sorted(s_ for s_ in SETUP_FUNCS if any(wf in reach[s_] for wf in writers.get(g, ())))
            gi = P.globals[g]
            rep.check(len(roots) <= 1, 'mutable global %s is written from one set-up entry point only (%s)' % (g, ', '.join(roots) or 'none'),
                      '%s:%s' % (gi.get('file', '?').replace('/repo/', ''), gi.get('line', '?')), '%s written from %s' % (g, ' and '.join(roots)),
                      detail={'global': g, 'writers': sorted(writers.get(g, ())), 'entry_points': roots}, sample={'global': g, 'entry_point': roots}, key='FRAME-4|%s' % g)

        rep.rule('FRAME-3', 'no pointer to a mutable global is stored into any object or returned to a caller '
                 '(pointers handed out are to constant tables only)')
        n3 = 0
        for f in P.defined.values():
            for i in f.all_insts():
                v = None
                if i.op == 'store' and i.ops[0]['k'] in ('i', 'a', 'g', 'ce'):
                    v = i.ops[0]
                elif i.op == 'ret' and i.ops and not f.local and f.d['ret_ty'].endswith('*'):
                    v = i.ops[0]
                if v is None:
                    continue
                n3 += 1
                esc = [o for o in pts.of(f, v) if o[0] == 'global' and o[1] in M]
                rep.check(not esc, 'value stored/returned at %s does not point into mutable static storage' % i.loc,
                          i.loc, '%s escapes %s' % (f.name, esc))
        rep.instances(n3, 2, 'pointer store/return sites')
    return True


STATE_BLIND = ('polyseed_encode', 'polyseed_store', 'polyseed_keygen', 'polyseed_crypt', 'polyseed_get_birthday', 'polyseed_get_feature',
               'polyseed_is_encrypted', 'polyseed_free')


def state_reads(ctx, rep, cfgs=None):
    """FRAME-5: operations on an existing seed are functions of the seed and their arguments only"""
    for cfg in cfgs or ['NsS']:
        P = ctx.prog(cfg); pts = P.points_to()
        if cfg not in rep.configs: rep.configs.append(cfg)
        M = mutable_globals(P)
        written = set()
        for f in P.defined.values():
            for i in f.all_insts():
                for ptr in written_pointers(P, f, i):
                    written |= {o[1] for o in pts.of(f, ptr) if o[0] == 'global'}
        M = {k: v for k, v in M.items() if k in written}       # (a non-const table nobody writes is not state)
        deps = {g['name'] for g in P.dep_globals()}
        rep.rule('FRAME-5', 'operations on an existing seed (encode, store, keygen, crypt, the getters, free) are functions of the seed, their arguments and the '
                 'injected functions only: no function reachable from them reads (load / memcpy / memcmp source, resolved by points-to) a mutable global other '
                 'than the dependency table - in particular not the enabled-feature mask, which only the constructors (create, decode, load) consult')
        n = 0
        for root in STATE_BLIND:
            if root not in P.defined: raise AnalysisBroken('public function %s not found' % root)
            reach = [P.defined[x] for x in sorted(P.reachable_from([root])) if x in P.defined]
            bad = []
            for f in reach:
                for i in f.all_insts():
                    srcs = []
                    if i.op == 'load': srcs = [i.ops[0]]
                    elif i.op == 'call' and not P.is_dbg(i):
                        t = P.call_target(i)
                        if t[0] == 'direct' and (t[1].startswith('llvm.memcpy') or t[1].startswith('llvm.memmove') or t[1] in ('memcpy', 'memmove')): srcs = [i.ops[1]]
                        elif t[0] == 'direct' and t[1] == 'memcmp': srcs = i.ops[:2]
                    for a in srcs:
                        n += 1
                        hit = [o[1] for o in pts.of(f, a) if o[0] == 'global' and o[1] in M and o[1] not in deps]
                        if hit: bad.append((i.loc, base_name(f.name), hit[0]))
            rep.check(not bad, '%s reads no library state other than the injected functions' % root, bad[0][0] if bad else '%s:%s' % ((P.defined[root].file or '').replace('/repo/', ''), P.defined[root].line),
                      '%s reads %s (via %s)' % (root, bad[0][2], bad[0][1]) if bad else root, detail=[list(b) for b in bad[:3]],
                      sample={'function': root, 'functions_reachable': len(reach)}, key='FRAME-5|%s' % root)
        rep.instances(n, 20, 'read sites examined')


# which injected functions each public operation may reach (the abstract model of C13 / C18: an operation consults the clock, the CSPRNG, the allocator, the
# KDF and the normalisers only where its specification says so; dep:memzero is allowed wherever temporaries exist)
API_DEPS = {
    'polyseed_create': {'alloc', 'free', 'randbytes', 'time', 'memzero'},
    'polyseed_decode': {'alloc', 'free', 'u8_nfkd', 'memzero'},
    'polyseed_decode_explicit': {'alloc', 'free', 'u8_nfkd', 'memzero'},
    'polyseed_load': {'alloc', 'free', 'memzero'},
    'polyseed_encode': {'u8_nfc', 'memzero'},
    'polyseed_store': {'memzero'},
    'polyseed_keygen': {'pbkdf2_sha256', 'memzero'},
    'polyseed_crypt': {'u8_nfkd', 'pbkdf2_sha256', 'memzero'},
    'polyseed_free': {'free', 'memzero'},
    'polyseed_get_birthday': set(), 'polyseed_get_feature': set(), 'polyseed_is_encrypted': set(),
    'polyseed_get_num_langs': set(), 'polyseed_get_lang': set(), 'polyseed_get_lang_name': set(), 'polyseed_get_lang_name_en': set(),
    'polyseed_enable_features': set(),
}


def api_deps(ctx, rep, cfgs=None):
    """CALL-4: which injected functions each public operation can reach"""
    for cfg in cfgs or ['NsS']:
        P = ctx.prog(cfg)
        if cfg not in rep.configs: rep.configs.append(cfg)
        rep.rule('CALL-4', 'per public operation, the injected functions reachable through the call graph (indirect calls and dependency wrappers resolved) are within what its '
                 'specification allows: the getters and the language queries reach none (pure functions of their arguments - in particular no clock), keygen reaches only the KDF, '
                 'encode only u8_nfc, store nothing, crypt u8_nfkd + KDF, load / decode the allocator (+ u8_nfkd for decode), create allocator + CSPRNG + clock; dep:memzero is '
                 'allowed wherever a function has temporaries')
        n = 0
        for name, allowed in sorted(API_DEPS.items()):
            if name not in P.defined: raise AnalysisBroken('public function %s not found' % name)
            f = P.defined[name]
            got = {x[4:] for x in P.reachable_from([name]) if x.startswith('dep:')}
            extra = sorted(got - allowed)
            n += 1
            rep.check(not extra, '%s reaches only %s' % (name, sorted(allowed) or 'no injected function'), '%s:%s' % ((f.file or '').replace('/repo/', ''), f.line),
                      '%s can call dep:%s' % (name, ', dep:'.join(extra)), detail={'reaches': sorted(got), 'allowed': sorted(allowed)}, sample={'function': name, 'reaches': sorted(got)},
                      key='CALL-4|%s' % name)
        rep.instances(n, 10, 'public operations')


DEP_IN_OUT = {'u8_nfc': [(0, 1)], 'u8_nfkd': [(0, 1)], 'pbkdf2_sha256': [(0, 5), (2, 5)]}


def dep_aliasing(ctx, rep, cfgs=None):
    """CALL-5: an injected function never receives the same buffer as input and as output"""
    from .ir import strip_casts
    for cfg in cfgs or ['NsS']:
        P = ctx.prog(cfg)
        if cfg not in rep.configs: rep.configs.append(cfg)
        rep.rule('CALL-5', 'no injected function is handed the same buffer as its input and as its output (u8_nfc / u8_nfkd: str vs norm; pbkdf2_sha256: password and salt vs key): '
                 'the interface does not promise callees that tolerate overlap - a normaliser that writes while it reads, or a KDF that re-keys from the password buffer in '
                 'every iteration, is conforming - so the result would depend on the implementation injected. Decided as must-alias: both arguments resolve (through casts, '
                 'constant offsets and the parameters of internal helpers, at every call site) to the same object at the same offset')
        n = 0
        def roots(f, v):
            out = set()
            for g, b, off in P.leaves(f, v):
                if b['k'] == 'i':
                    i = g.insts[b['id']]
                    if i.op in ('alloca', 'call'): out.add((g.name, 'i', b['id'], off))
                elif b['k'] == 'a': out.add((g.name, 'a', b['n'], off))
                elif b['k'] == 'g': out.add(('', 'g', b.get('name'), off))
            return out
        for f in P.defined.values():
            for i, t in P.calls(f):
                if t[0] != 'dep' or t[1] not in DEP_IN_OUT: continue
                for a, b in DEP_IN_OUT[t[1]]:
                    if b >= len(i.ops): raise AnalysisBroken('dep:%s called with %d arguments at %s' % (t[1], len(i.ops), i.loc))
                    n += 1
                    ra, rb = roots(f, i.ops[a]), roots(f, i.ops[b])
                    same = sorted(x for x in ra & rb if x[3] is not None)
                    rep.check(not same, 'dep:%s at %s: argument %d (input) and argument %d (output) are different buffers' % (t[1], i.loc, a, b), i.loc,
                              '%s: dep:%s reads and writes the same buffer' % (base_name(f.name), t[1]), detail={'same_object': [list(map(str, x)) for x in same[:3]]},
                              sample={'site': i.loc, 'dep': t[1], 'input_roots': len(ra), 'output_roots': len(rb)} if n <= 4 else None, key='CALL-5|%s|%s' % (base_name(f.name), t[1]))
        rep.instances(n, 5, 'input/output argument pairs of injected functions')


def local_escape(ctx, rep, cfgs=None):
    """ESC-1: the address of a local never outlives its function"""
    for cfg in cfgs or ['NsS']:
        P = ctx.prog(cfg)
        if cfg not in rep.configs: rep.configs.append(cfg)
        rep.rule('ESC-1', 'no pointer into a local buffer of a function is left, when that function returns, in memory that outlives it (an object of a caller reached through a '
                 'parameter, static storage) or returned: a later read through it reads a dead stack frame (undefined; works only while the compiler inlines the helper). Decided per '
                 'call chain: "stores a pointer derived from parameter i into the object parameter j points to" is a summary of the storing function, instantiated at each call site '
                 'with that site\'s own arguments (no cross product between call sites)')
        def roots(f, v, depth=0, seen=None):
            """where a pointer value comes from: {('alloca', id) | ('param', n) | ('global', name) | ('other',)}"""
            seen = seen if seen is not None else set()
            out = set()
            if v['k'] == 'a': return {('param', v['n'])}
            if v['k'] == 'g': return {('global', v.get('name'))}
            if v['k'] == 'ce':
                for o in v.get('ops', []): out |= roots(f, o, depth, seen)
                return out or {('other',)}
            if v['k'] != 'i': return {('other',)}
            if v['id'] in seen or depth > 40: return set()
            seen.add(v['id'])
            i = f.insts.get(v['id'])
            if i is None: return {('other',)}
            if i.op == 'alloca': return {('alloca', i.id)}
            if i.op in ('bitcast', 'getelementptr', 'addrspacecast'): return roots(f, i.ops[0], depth + 1, seen)
            if i.op == 'phi':
                for v2, _ in i.d['incoming']: out |= roots(f, v2, depth + 1, seen)
                return out
            if i.op == 'select': return roots(f, i.ops[1], depth + 1, seen) | roots(f, i.ops[2], depth + 1, seen)
            return {('other',)}
        is_ptr = lambda f, v: (v['k'] == 'a' and f.params[v['n']]['ty'].endswith('*')) or (v['k'] == 'i' and (f.insts[v['id']].d.get('ty') or '').endswith('*')) or v['k'] in ('g', 'ce')
        # summaries: function -> set of (i, j): a pointer derived from parameter i is stored into the object parameter j points to
        summ = {f.name: set() for f in P.defined.values()}
        found = []       # (function, inst, description)
        changed = True; rounds = 0
        while changed and rounds < 8:
            changed = False; rounds += 1
            for f in P.defined.values():
                flows = []      # (value roots, target roots, inst)
                for i in f.all_insts():
                    if i.op == 'store' and is_ptr(f, i.ops[0]):
                        flows.append((roots(f, i.ops[0]), roots(f, i.ops[1]), i))
                    elif i.op == 'call' and not P.is_dbg(i):
                        t = P.call_target(i)
                        if t[0] == 'direct' and t[1] in summ:
                            for (a, b) in summ[t[1]]:
                                if a < len(i.ops) and b < len(i.ops): flows.append((roots(f, i.ops[a]), roots(f, i.ops[b]), i))
                for vr, tr, i in flows:
                    for x in vr:
                        for y in tr:
                            if x[0] == 'param' and y[0] == 'param' and x[1] != y[1]:
                                if (x[1], y[1]) not in summ[f.name]: summ[f.name].add((x[1], y[1])); changed = True
                            elif x[0] == 'alloca' and y[0] in ('param', 'global'):
                                d = (f.name, i.id)
                                if d not in [z[:2] for z in found]:
                                    a_ = f.insts[x[1]]
                                    found.append((f.name, i.id, 'the address of local %s is stored into %s at %s' % (a_.d.get('var') or '%%%d' % x[1], 'the object parameter %d points to' % y[1] if y[0] == 'param' else 'static storage', i.loc), i.loc))
        nret = 0
        for f in P.defined.values():
            for i in f.all_insts():
                if i.op == 'ret' and i.ops and (f.d.get('ret_ty') or '').endswith('*'):
                    nret += 1
                    for x in roots(f, i.ops[0]):
                        if x[0] == 'alloca': found.append((f.name, i.id, 'the address of local %s is returned at %s' % (f.insts[x[1]].d.get('var') or '%%%d' % x[1], i.loc), i.loc))
        nst = sum(1 for f in P.defined.values() for i in f.all_insts() if i.op == 'store' and is_ptr(f, i.ops[0]))
        rep.check(not found, 'no local address is left behind in %d pointer stores / %d pointer returns of %d functions (%d store summaries)' % (nst, nret, len(P.defined), sum(len(v) for v in summ.values())),
                  found[0][3] if found else 'src/', '%s: %s' % (base_name(found[0][0]), found[0][2]) if found else '', detail={'escapes': [x[2] for x in found[:6]]},
                  sample={'pointer_stores': nst, 'summaries': {base_name(k): sorted(v) for k, v in summ.items() if v}}, key='ESC-1|%s' % (base_name(found[0][0]) if found else ''))
        rep.instances(nst + nret, 3, 'pointer stores and pointer returns')


def api_abi(ctx, rep):
    """ABI-1: the library as built agrees with what a client of the public header sees"""
    import subprocess, tempfile, os, re
    from . import frontend
    cfg = 'NsS'
    P = ctx.prog(cfg)
    if cfg not in rep.configs: rep.configs.append(cfg)
    rep.rule('ABI-1', 'calling convention of the public API: a translation unit that only includes include/polyseed.h and is compiled with the compiler\'s default options (what an '
             'application does) declares every public function with the same return and parameter types, and lays out polyseed_str / polyseed_storage / polyseed_dependency with '
             'the same sizes, as the library defines them under ITS build flags (compile database of the project). A private compile option that changes the representation of a '
             'public type - enum size, struct packing, char signedness of a public field - makes the library read arguments differently from how callers pass them')
    root = frontend.repo_root()
    names = sorted(n for n, f in P.defined.items() if not f.local and n in API_DEPS or n in ('polyseed_inject',))
    src = '#include "polyseed.h"\nvoid* polyseed_abi_probe[] = { %s };\n' % ', '.join('(void*)%s' % n for n in names)
    src += 'unsigned long polyseed_abi_sizes[] = { sizeof(polyseed_str), sizeof(polyseed_storage), sizeof(polyseed_dependency), sizeof(polyseed_coin), sizeof(polyseed_status) };\n'
    d = tempfile.mkdtemp(prefix='psa-abi-')
    try:
        open(os.path.join(d, 'probe.c'), 'w').write(src)
        p = subprocess.run(['clang-14', '-I', os.path.join(root, 'include'), '-S', '-emit-llvm', '-O0', '-w', '-o', '-', os.path.join(d, 'probe.c')], stdout=subprocess.PIPE, stderr=subprocess.PIPE, text=True)
        if p.returncode != 0: raise AnalysisBroken('the public header does not compile on its own: %s' % p.stderr[-300:])
        ir = p.stdout
    finally:
        import shutil; shutil.rmtree(d, ignore_errors=True)
    def norm(t):
        t = re.sub(r'\b(noundef|zeroext|signext|nonnull|readonly|nocapture|align \d+|dereferenceable\(\d+\)|noalias)\b', '', t)
        return re.sub(r'\s+', ' ', t).strip()
    decl = {}
    for m in re.finditer(r'^declare (?:[a-z_]+ )*?(\S+(?: \([^)]*\)\*)?) @(\w+)\((.*)\)', ir, re.M):
        ret, nm, params = m.group(1), m.group(2), m.group(3)
        depth = 0; cur = ''; ps = []
        for ch in params:
            if ch in '([': depth += 1
            if ch in ')]': depth -= 1
            if ch == ',' and depth == 0: ps.append(norm(cur)); cur = ''
            else: cur += ch
        if cur.strip(): ps.append(norm(cur))
        decl[nm] = (norm(ret), ps)
    n = 0
    for nm in names:
        f = P.defined[nm]
        if nm not in decl: raise AnalysisBroken('public function %s is not declared in include/polyseed.h' % nm)
        n += 1
        lib = (f.d.get('ret_ty'), [p_['ty'] for p_ in f.params])
        cli = decl[nm]
        rep.check(lib[0] == cli[0] and lib[1] == cli[1], '%s: library definition %s(%s) = client declaration' % (nm, lib[0], ', '.join(lib[1])), '%s:%s' % ((f.file or '').replace('/repo/', ''), f.line),
                  '%s is compiled with a different signature than callers use' % nm, detail={'library': {'ret': lib[0], 'params': lib[1]}, 'client': {'ret': cli[0], 'params': cli[1]}},
                  sample={'function': nm, 'params': lib[1]} if n <= 2 else None, key='ABI-1|%s' % nm)
    rep.instances(n, 10, 'public functions')
    m = re.search(r'@polyseed_abi_sizes = .*\[(.*?)\]', ir)
    cs = [int(x) for x in re.findall(r'i64 (\d+)', m.group(1))] if m else []
    T = ctx.tables()
    lib_sizes = {'polyseed_str': T.str_size(), 'polyseed_dependency': (P.structs.get('struct.polyseed_dependency') or {}).get('size')}
    if len(cs) == 5:
        rep.check(cs[0] == lib_sizes['polyseed_str'], 'sizeof(polyseed_str): client %d = library %s' % (cs[0], lib_sizes['polyseed_str']), 'include/polyseed.h', 'polyseed_str differs between client and library', key='ABI-1|str')
        rep.check(cs[2] == lib_sizes['polyseed_dependency'], 'sizeof(polyseed_dependency): client %d = library %s' % (cs[2], lib_sizes['polyseed_dependency']), 'include/polyseed.h', 'polyseed_dependency differs between client and library', key='ABI-1|deps')
        en = P.ditypes.get('enum:polyseed_coin') or P.ditypes.get('polyseed_coin') or {}
        if en.get('size_bits'):
            rep.check(cs[3] * 8 == en['size_bits'], 'sizeof(polyseed_coin): client %d bytes = library %d bits' % (cs[3], en['size_bits']), 'include/polyseed.h', 'polyseed_coin differs between client and library', key='ABI-1|coin')


def visibility(ctx, rep):
    """FRAME-6: the library's mutable state is its own also in the shared-library build"""
    cfg = 'NsH'
    P = ctx.prog(cfg)
    if cfg not in rep.configs: rep.configs.append(cfg)
    rep.rule('FRAME-6', 'shared-library configuration (POLYSEED_SHARED): every non-constant global the library defines has internal linkage or hidden visibility, '
             'so the copy of the injected functions and the feature mask cannot be bound to a same-named object of the application (ELF symbol interposition) '
             'and are not part of the exported interface; the public API functions are the only default-visibility symbols')
    n = 0
    for g in P.globals.values():
        if g['constant'] or g['decl']: continue
        n += 1
        where = '%s:%s' % (g.get('file', '?').replace('/repo/', ''), g.get('line', '?'))
        ok = g['linkage'] == 'local' or g.get('visibility') == 'hidden'
        rep.check(ok, 'mutable global %s is %s' % (g['name'], 'internal' if g['linkage'] == 'local' else g.get('visibility')), where,
                  'global %s is exported from the shared library' % g['name'], detail={'linkage': g['linkage'], 'visibility': g.get('visibility')},
                  sample={'global': g['name'], 'linkage': g['linkage'], 'visibility': g.get('visibility')}, key='FRAME-6|%s' % g['name'])
    rep.instances(n, 2, 'mutable globals')


def who_may_call(ctx, rep, cfgs=None):
    """C18 clause 2 / C20 clause 5: external callee allow-list; indirect calls resolved."""
    for cfg in cfgs or ctx.configs('effect'):
        P = ctx.prog(cfg); pts = P.points_to()
        if cfg not in rep.configs: rep.configs.append(cfg)
        rep.rule('CALL-1', 'every direct call to a function not defined in the library is to one of '
                 '{memset, memcpy, memcmp, bsearch, time (only inside the NULL-clock default)} plus, in assertion-enabled '
                 'builds, {strcmp, __assert_fail}: no other source of randomness, time, memory, locale or hidden libc state; '
                 'no inline assembly')
        n = 0
        for f in P.defined.values():
            for i, t in P.calls(f):
                if t[0] == 'asm':
                    rep.fail('no inline assembly', i.loc, f.name); continue
                if t[0] != 'direct' or t[1] in P.defined:
                    continue
                name = t[1]
                if name.startswith('llvm.'):
                    ok = any(name.startswith(p) for p in ('llvm.memset', 'llvm.memcpy', 'llvm.memmove', 'llvm.dbg', 'llvm.lifetime'))
                    rep.check(ok, 'intrinsic %s is a plain memory intrinsic' % name, i.loc, '%s calls %s' % (f.name, name))
                    n += 1; continue
                n += 1
                a = EXTERNAL_ALLOWED.get(name)
                ok = a is not None and (a['cfg'] == 'any' or cfg[0] == a['cfg'])
                if ok and a.get('only_in'):
                    ok = base_name(f.name) == a['only_in']
                rep.check(ok, 'external callee %s allowed in %s' % (name, f.name), i.loc,
                          '%s calls %s' % (base_name(f.name), name),
                          detail='external function outside the allow-list: effects (time, randomness, memory, hidden '
                                 'state) must go through the injected dependency table', sample={'caller': f.name, 'callee': name})
        rep.instances(n, 3, 'external call sites')

        rep.rule('CALL-2', 'every indirect call is a call through a field of the dependency table, or a call of a '
                 'comparator value whose only possible targets are functions defined in the library (value flow from '
                 'get_comparer); bsearch receives the same kind of value')
        nd = 0; ni = 0; counts = {}
        for f in P.defined.values():
            for i, t in P.calls(f):
                if t[0] == 'dep':
                    nd += 1; counts[t[1]] = counts.get(t[1], 0) + 1
                    rep.ok('dep:%s call at %s' % (t[1], i.loc))
                elif t[0] == 'indirect':
                    ni += 1
                    tg = [o for o in pts.of(f, t[1]) if o[0] == 'func']       # (an aggregate passed by value is field-insensitive: data objects ignored)
                    ok = bool(tg) and all(o[1] in P.defined for o in tg)
                    rep.check(ok, 'indirect call at %s has only library-defined targets' % i.loc, i.loc, f.name,
                              detail=sorted(map(str, tg)), sample={'site': i.loc, 'targets': sorted(o[1] for o in tg)})
                elif t[0] == 'direct' and t[1] == 'bsearch':
                    tg = [o for o in pts.of(f, i.ops[4]) if o[0] == 'func']
                    ok = bool(tg) and all(o[1] in P.defined for o in tg)
                    rep.check(ok, 'bsearch comparator at %s has only library-defined targets' % i.loc, i.loc, f.name)
        rep.info.setdefault('dep_call_sites', {})[cfg] = counts
        rep.instances(nd, 10, 'dependency call sites')
        floors = {'alloc': 1, 'free': 1, 'memzero': 3, 'randbytes': 1, 'time': 1, 'pbkdf2_sha256': 1, 'u8_nfc': 1, 'u8_nfkd': 1}
        for k, fl in floors.items():
            if counts.get(k, 0) < fl:
                raise AnalysisBroken('dependency field %s has %d call sites, below the confirmed floor %d' % (k, counts.get(k, 0), fl))

        rep.rule('CALL-3', 'libc allocation/time entry points appear only as address constants stored into the dependency table (or a local copy of '
                 'that struct) by code reachable only from polyseed_inject (defaults for NULL entries), never called')
        setup_only = set(P.reachable_from(SETUP_FUNCS)) - per_seed_reachable(P)
        n3 = 0
        for f in P.defined.values():
            for i in f.all_insts():
                vals = list(enumerate(i.ops)) + ([(100 + k, v) for k, (v, _) in enumerate(i.d['incoming'])] if i.op == 'phi' else [])
                for k, v in vals:
                    if v['k'] == 'f' and v['name'] not in P.defined and v['name'] not in P.wrapper_defs:
                        n3 += 1
                        # the address may only flow as data (stored value, phi/select operand, cast): never passed to a call or compared
                        ok = (i.op == 'store' and k == 0) or i.op in ('phi', 'select', 'bitcast')
                        rep.check(ok and f.name in setup_only, 'address of external %s is only moved as data inside setup-only code' % v['name'], i.loc,
                                  '%s takes &%s' % (f.name, v['name']), sample={'fn': f.name, 'ext': v['name']})
                if i.op == 'store':
                    ext = [o for o in pts.of(f, i.ops[0]) if o[0] == 'func' and o[1] not in P.defined and o[1] not in P.wrapper_defs]
                    if ext:
                        ok = f.name in setup_only
                        for o in pts.of(f, i.ops[1]):
                            if o[0] == 'global': ok = ok and P.globals[o[1]]['ty'] == '%struct.polyseed_dependency'
                            elif o[0] == 'alloca': ok = ok and P.defined[o[1]].insts[o[2]].d['alloc_ty'] == '%struct.polyseed_dependency'
                            elif o[0] == 'byval': ok = ok and P.defined[o[1]].params[o[2]].get('byval_ty') == '%struct.polyseed_dependency'
                            else: ok = False
                        rep.check(ok, 'address of external %s is stored only into the dependency table (or a local copy of that struct) by setup-only code' % ext[0][1],
                                  i.loc, '%s stores &%s' % (f.name, ext[0][1]))
        rep.rules[rep._cur]['instances'] += n3   # expected count may legitimately be zero: no floor
