"""Table rules: L-TABLE (C07), phrase-size bound (C17), byte-order condition of C19, normalisation closure (C01/C07)."""
import json, os, unicodedata
from .frontend import AnalysisBroken
from .tables import REF, nfkd, nfc, strip_accents, digest_words
from .ir import const_of, base_name, strip_casts, LANG_STRUCT

NUM_WORDS = 16


def load_ref():
    ref = json.load(open(os.path.join(REF, 'languages.json')))
    for k, v in ref['languages'].items():
        v['words'] = open(os.path.join(REF, v['file']), 'rb').read().split(b'\n')[:-1]
    return ref


def where(L, idx=None):
    f = str(L.file).replace('/repo/', '')
    i = f.find('src/')
    f = f[i:] if i >= 0 else f
    return '%s:%s' % (f, L.line if idx is None else '%s (+%d: word index %d)' % (L.line, idx, idx))


def model_cmp_key(word, prefix, noaccent):
    """the reference matching rule of C08, on full words: the key a word is compared by"""
    return strip_accents(word) if noaccent else word


def registry_and_frozen(ctx, rep):
    T = ctx.tables(); ref = load_ref()
    rep.rule('TAB-1', 'registry: exactly the ten published languages (by English name), each referenced once and in the '
             'published order from the registry array (which nobody writes: L-FRAME); every table is constant data; each table has 2048 non-NULL words')
    langs = T.ordered()
    rep.instances(len(T.langs), 10, 'language tables')
    names = [L.name_en.decode('utf-8', 'replace') for L in langs]
    rep.check(len(T.registry) == len(ref['order']) and None not in T.registry and all(s in T.langs for s in T.registry),
              'registry has %d entries, all pointing at language tables' % len(ref['order']), T.registry_sym, 'registry ' + T.registry_sym,
              detail=T.registry)
    rep.check(names == ref['order'], 'registry lists the published languages in the published order', T.registry_sym,
              'registry ' + T.registry_sym, detail={'found': names, 'expected': ref['order']}, sample=names)
    rep.check(len(set(T.registry)) == len(T.registry), 'no language registered twice', T.registry_sym, 'registry')
    unreg = sorted(set(T.langs) - set(T.registry))
    rep.check(not unreg, 'every language table in the library is registered', str(unreg), 'unregistered tables %s' % unreg)
    for L in langs:
        rep.check(L.constant, 'table %s is constant data' % L.sym, where(L), L.sym)
        rep.check(len(L.words) == 2048 and all(w is not None and len(w) > 0 for w in L.words),
                  '%s has 2048 non-empty words' % L.sym, where(L), L.sym, detail=len(L.words))

    rep.rule('TAB-2', 'frozen content: name, separator, the four flags and all 2048 words of each language equal the pinned '
             'release (ref/languages.json, ref/words/*.txt); differing indices are listed')
    for L in langs:
        key = L.name_en.decode('utf-8', 'replace')
        r = ref['languages'].get(key)
        if r is None:
            rep.fail('language %s is one of the ten published languages' % key, where(L), L.sym); continue
        meta_ok = (L.name.hex() == r['name_hex'] and L.separator.hex() == r['separator_hex'] and
                   all(getattr(L, f) == r[f] for f in ('is_sorted', 'has_prefix', 'has_accents', 'compose')))
        rep.check(meta_ok, '%s: name/separator/flags as published' % key, where(L), L.sym + ' header',
                  detail={f: getattr(L, f) for f in ('is_sorted', 'has_prefix', 'has_accents', 'compose')} | {'separator': L.separator.hex()},
                  key='TAB-2|%s|header' % L.sym)
        diff = [i for i in range(min(len(L.words), len(r['words']))) if L.words[i] != r['words'][i]]
        ok = not diff and len(L.words) == len(r['words']) and digest_words(L.words) == r['words_sha256']
        rep.check(ok, '%s: 2048 words identical to the pinned release (sha256 %s...)' % (key, r['words_sha256'][:12]),
                  where(L, diff[0] if diff else None), L.sym + ' words',
                  detail={'differing_indices': diff[:20], 'found': [L.words[i].decode('utf-8', 'replace') for i in diff[:5]],
                          'expected': [r['words'][i].decode('utf-8', 'replace') for i in diff[:5]]},
                  sample={'language': key, 'sha256': r['words_sha256']}, key='TAB-2|%s|words' % L.sym)
    return langs


def normalisation(ctx, rep):
    T = ctx.tables(); langs = T.ordered()
    rep.rule('TAB-3', 'every word is distinct within its language, valid UTF-8 and NFKD-stable; the separator NFKD-normalises '
             'to one ASCII space; NFKD(NFC(word)) = word and, for composing languages, NFKD(NFC(separator)) = " "; no word begins '
             'with a combining character and no word contains a space (so word-level closure lifts to whole phrases); '
             'compose is set iff some word changes under NFC (oracle: Python unicodedata)')
    for L in langs:
        key = L.sym
        try:
            us = [w.decode('utf-8') for w in L.words]; sep = L.separator.decode('utf-8')
        except UnicodeDecodeError as e:
            rep.fail('%s: all strings are valid UTF-8' % key, where(L), key, detail=str(e)); continue
        seen = {}
        dups = []
        for i, w in enumerate(L.words):
            if w in seen: dups.append((seen[w], i))
            seen[w] = i
        rep.check(not dups, '%s: 2048 distinct words' % key, where(L, dups[0][1] if dups else None), key, detail=dups[:5], key='TAB-3|%s|distinct' % key)
        bad = [i for i, u in enumerate(us) if unicodedata.normalize('NFKD', u) != u]
        rep.check(not bad, '%s: every word is NFKD-stable' % key, where(L, bad[0] if bad else None), key,
                  detail={'indices': bad[:10], 'words': [us[i] for i in bad[:5]]}, key='TAB-3|%s|nfkd' % key)
        bad = [i for i, u in enumerate(us) if unicodedata.normalize('NFKD', unicodedata.normalize('NFC', u)) != u]
        rep.check(not bad, '%s: NFKD(NFC(word)) = word for every word' % key, where(L, bad[0] if bad else None), key, detail=bad[:10],
                  key='TAB-3|%s|nfc-nfkd' % key)
        rep.check(unicodedata.normalize('NFKD', sep) == ' ', '%s: separator normalises (NFKD) to one ASCII space' % key, where(L), key,
                  detail=L.separator.hex(), key='TAB-3|%s|sep' % key)
        rep.check(unicodedata.normalize('NFKD', unicodedata.normalize('NFC', sep)) == ' ', '%s: separator survives NFC then NFKD' % key, where(L), key)
        bad = [i for i, u in enumerate(us) if unicodedata.combining(u[0]) or ' ' in u or '　' in u or
               any(unicodedata.normalize('NFKD', c) == ' ' for c in u)]
        rep.check(not bad, '%s: no word starts with a combining mark or contains a space-like character' % key,
                  where(L, bad[0] if bad else None), key, detail=bad[:10], key='TAB-3|%s|boundary' % key)
        # the first character of a word must not compose with the separator / previous word's last char under NFC:
        # starters with canonical combining class 0 that are not the second half of a composition pair with ' '
        changes = any(unicodedata.normalize('NFC', u) != u for u in us) or unicodedata.normalize('NFC', sep) != sep
        rep.check(L.compose == changes or (L.compose and not changes and False) or (L.compose and changes),
                  '%s: compose flag set whenever NFC changes some word (composed output form)' % key, where(L), key,
                  detail={'compose': L.compose, 'nfc_changes_some_word': changes}, key='TAB-3|%s|compose' % key)
        # Hangul / kana composition across a word boundary cannot happen: separator is a starter that composes with nothing
        rep.check(not unicodedata.combining(sep[0]) and unicodedata.normalize('NFC', 'a' + sep + 'a') == 'a' + unicodedata.normalize('NFC', sep) + 'a',
                  '%s: separator is a starter and does not compose with neighbours' % key, where(L), key)


def search_preconditions(ctx, rep):
    T = ctx.tables(); langs = T.ordered()
    rep.rule('TAB-4', 'search preconditions under the reference matching rule selected by (has_prefix, has_accents): if is_sorted, '
             'the list is strictly increasing in that rule\'s order (signed AND unsigned byte order when raw bytes are compared), so '
             'binary search is exact; every full word matches its own entry and no other; in has_prefix languages no two words share '
             'their first four accent-stripped letters, no word of >= 4 letters is a prefix of another, and - if has_accents is false - '
             'all words are pure ASCII (otherwise the 4-character rule would count bytes)')
    info = {}
    for L in langs:
        key = L.sym
        ks = [model_cmp_key(w, L.has_prefix, L.has_accents) for w in L.words]
        # identity of the match relation on full words: stripped forms distinct
        d = {}
        coll = []
        for i, k in enumerate(ks):
            if k in d: coll.append((d[k], i))
            d[k] = i
        rep.check(not coll, '%s: no two words are equal under the matching rule (accent-stripped forms distinct)' % key,
                  where(L, coll[0][1] if coll else None), key, detail=coll[:5], key='TAB-4|%s|identity' % key)
        if L.has_prefix:
            p4 = {}
            c4 = []
            for i, k in enumerate(ks):
                p = k[:4]
                if p in p4: c4.append((p4[p], i, p.decode('ascii', 'replace')))
                p4[p] = i
            rep.check(not c4, '%s: first four accent-stripped letters are unique' % key, where(L, c4[0][1] if c4 else None), key,
                      detail=c4[:5], key='TAB-4|%s|prefix4' % key)
            srt = sorted(range(len(ks)), key=lambda i: ks[i])
            pref_all = []; pref4 = []
            for a, b in zip(srt, srt[1:]):
                if ks[b].startswith(ks[a]):
                    pref_all.append((a, b))
                    if len(ks[a]) >= 4: pref4.append((a, b))
            rep.check(not pref4, '%s: no word of >= 4 letters is a prefix of another word' % key,
                      where(L, pref4[0][0] if pref4 else None), key, detail=[(L.words[a].decode(), L.words[b].decode()) for a, b in pref4[:5]],
                      key='TAB-4|%s|prefix-of' % key)
            info[key] = {'words_shorter_than_4_that_prefix_another (informational, never an accepted abbreviation)': len(pref_all)}
            if not L.has_accents:
                bad = [i for i, w in enumerate(L.words) if any(c >= 0x80 for c in w)]
                rep.check(not bad, '%s: prefix language without accent skipping is pure ASCII' % key, where(L, bad[0] if bad else None), key,
                          detail=bad[:5], key='TAB-4|%s|ascii' % key)
            else:
                bad = [i for i, w in enumerate(L.words) if len(strip_accents(w)) == 0]
                rep.check(not bad, '%s: every word keeps at least one base letter after accent stripping' % key, where(L), key)
        if L.is_sorted:
            for order, f in (('unsigned', lambda k: k + b'\0'), ('signed', lambda k: bytes((c + 128) & 255 for c in k + b'\0'))):
                tk = [f(k) for k in ks]
                if L.has_prefix:
                    # prefix rule: key compared with the same-length prefix of elm once it has >= 4 letters
                    bad = [i for i in range(len(ks) - 1) if not _prefix_less(ks[i], ks[i + 1], f)]
                else:
                    bad = [i for i in range(len(tk) - 1) if not tk[i] < tk[i + 1]]
                rep.check(not bad, '%s: strictly increasing under the matching rule (%s byte order)' % (key, order),
                          where(L, bad[0] + 1 if bad else None), key,
                          detail=[(i, L.words[i].decode('utf-8', 'replace'), L.words[i + 1].decode('utf-8', 'replace')) for i in bad[:5]],
                          sample={'language': key, 'order': order}, key='TAB-4|%s|sorted-%s' % (key, order))
    rep.info['prefix_pairs'] = info


def _prefix_less(a, b, f):
    """cmp(key=a, elm=b) < 0 under the prefix rule (n = 4): a key of L >= 4 letters is compared with the first L letters
    of the element, a shorter key with the whole element (keys are ASCII here: checked by the same rule)"""
    L = len(a)
    return a < b[:L] if L >= 4 else a < b


def _cond_root(f, v, depth=0):
    """the value a branch condition tests for truth: through icmp ne/eq 0, zext / trunc, xor true"""
    while v['k'] == 'i' and depth < 8:
        i = f.insts[v['id']]
        if i.op == 'icmp' and const_of(i.ops[1]) == 0: v = i.ops[0]
        elif i.op in ('zext', 'trunc', 'sext'): v = i.ops[0]
        elif i.op == 'xor' and const_of(i.ops[1]) == 1: v = i.ops[0]
        elif i.op == 'and' and const_of(i.ops[1]) is not None: v = i.ops[0]
        else: break
        depth += 1
    return v


def _sorted_guard_semantic(P, f):
    """abstract execution (bitflow) of the function that calls bsearch with the language flags as symbols: True iff every execution that reaches bsearch has is_sorted = 1;
    None when the function is outside what the harness models"""
    from .bitflow import Interp, State, Ptr, BV, Tag, Unmodelled
    from .ir import LANG_STRUCT
    lf = {n: (o, sz) for o, (n, sz) in P.field_table(LANG_STRUCT).items()}
    summ = {}
    I = Interp(P, summaries=summ)
    seen = []
    def bs(I_, st, args, inst):
        seen.append(st.cons.reduce(I_.V.bit('lang.is_sorted'))); return BV.const(0, 64)
    summ['bsearch'] = bs
    summ['psa_cmp_never'] = lambda I_, st, args, inst: BV.const(1, 32)
    st = State(); st.mem.new('lang', 8, 0)
    def hook(I_, st_, ptr, nbytes, inst, as_ptr):
        c0, steps = ptr.parts if ptr.parts else (ptr.coff(), [])
        if not steps and c0 is not None:
            fb = P.flag_load(LANG_STRUCT, c0, nbytes, {n: I_.V.bit('lang.' + n) for n in ('is_sorted', 'has_prefix', 'has_accents', 'compose')})
            if fb is not None: return BV(fb)
        if steps and c0 == lf['words'][0]: return Tag('word', tuple(steps[0][0].bits))
        raise Unmodelled('read of the language table at %s' % inst.loc)
    st.mem.hooks = {'lang': hook}
    args = []
    for n_, p_ in enumerate(f.params):
        ty = p_['ty']
        if ty == '%' + LANG_STRUCT + '*': args.append(Ptr('lang', 0))
        elif ty == 'i8*': args.append(Tag('token', 0))
        elif ty.endswith(')*'): args.append(Ptr('f:psa_cmp_never', 0))
        elif ty == 'i8**':
            nm = 'arg%d' % n_; st.mem.new(nm, 128, 0)
            for k in range(16):
                for j in range(8): st.mem.objs[nm][8 * k + j] = ('tag', Tag('token', k), j)
            args.append(Ptr(nm, 0))
        elif ty.endswith('*'):
            nm = 'arg%d' % n_; st.mem.new(nm, 256, 0); args.append(Ptr(nm, 0))
        elif p_.get('bits'): args.append(BV.const(0, p_['bits']))
        else: return None
    try:
        I.budget = 64; I.max_steps = 2000000
        I.run(f, args, st)
    except Unmodelled:
        return None
    if not seen: return None
    return all(b == 1 for b in seen)


def search_callsite(ctx, rep, cfgs=None):
    """C07 clause 5: lang_search's constants"""
    for cfg in cfgs or ctx.configs('path'):
        P = ctx.prog(cfg)
        if cfg not in rep.configs: rep.configs.append(cfg)
        T = ctx.tables()
        rep.rule('TAB-5', 'the word search uses bsearch(key, &lang->words[0], 2048, sizeof(char*), cmp) when is_sorted, else a linear '
                 'scan over indices 0..2047 returning the first index whose comparator result is 0; every bsearch in the library has '
                 'these constants')
        ft = P.field_table(LANG_STRUCT)
        woff = [o for o, (n, s) in ft.items() if n == 'words'][0]
        nwords = [s for o, (n, s) in ft.items() if n == 'words'][0] // 8
        n = 0
        def leaves(f, v, depth=0):
            """values an operand can stand for: itself, or - if it is a parameter of f (possibly behind casts / constant GEPs) - the actual arguments at every direct
            call site of f, recursively: [(function, valref, constant offset accumulated on the way)]"""
            base, off = strip_casts(f, v)
            if base['k'] == 'a' and depth < 4 and off is not None:
                out = []
                for g in P.defined.values():
                    for ci, ct in P.calls(g):
                        if ct == ('direct', f.name) and base['n'] < len(ci.ops):
                            for (g2, v2, o2) in leaves(g, ci.ops[base['n']], depth + 1): out.append((g2, v2, None if o2 is None else o2 + off))
                if out: return out
            return [(f, base, off)]
        for f in P.defined.values():
            for i, t in P.calls(f):
                if t != ('direct', 'bsearch'): continue
                n += 1
                bases = leaves(f, i.ops[1]); nms = leaves(f, i.ops[2]); szs = leaves(f, i.ops[3])
                offs = sorted(set(o for _, _, o in bases), key=str)
                nmv = sorted(set(const_of(v) for _, v, _ in nms), key=str); szv = sorted(set(const_of(v) for _, v, _ in szs), key=str)
                ok = offs == [woff] and nmv == [nwords] and szv == [8] and nwords == 2048
                if not ok:
                    # operands computed across helper boundaries (pointer ranges, context structs, length helpers): small symbolic evaluation
                    sb, sn, ss = P.sym(f, i.ops[1]), P.sym(f, i.ops[2]), P.sym(f, i.ops[3])
                    if sb and sn and ss and sb[0] == 'ptr' and sb[1][0] == 'val' and sn[0] == 'int' and ss[0] == 'int':
                        offs, nmv, szv = [sb[2]], [sn[1]], [ss[1]]
                        ok = offs == [woff] and nmv == [nwords] and szv == [8] and nwords == 2048
                rep.check(ok, 'bsearch at %s searches all %d entries of lang->words with element size 8 (operands resolved through the parameters of %s to its call sites)' % (i.loc, nwords, base_name(f.name)), i.loc,
                          '%s bsearch' % base_name(f.name), detail={'base_offsets': offs, 'nmemb': nmv, 'size': szv, 'words_offset': woff},
                          sample={'site': i.loc, 'nmemb': nmv, 'size': szv})
        rep.instances(n, 1, 'bsearch call sites')
        # the binary search is applied only where the table says it is sorted
        from .rules_cmp import _field_of
        for f in P.defined.values():
            dom = None
            for i, t in P.calls(f):
                if t != ('direct', 'bsearch'): continue
                dom = dom or f.dominators()
                guarded = False; seen_cond = False
                for b in dom[i.bb]:
                    tb = f.blocks[b][-1]
                    if tb.op != 'br' or len(tb.ops) != 3 or b == i.bb: continue
                    s0, s1 = f.succs[b][0], f.succs[b][1]
                    # the call's block is reachable from this branch only through one of the two successors
                    via = [s_ for s_ in (s0, s1) if s_ == i.bb or s_ in dom[i.bb]]
                    if len(via) != 1: continue
                    seen_cond = True
                    if _field_of(P, f, tb.ops[0]) == 'is_sorted': guarded = True      # (bit-field flags: the masks on the way select the member)
                    for (g2, v2, _) in P.leaves(f, _cond_root(f, tb.ops[0])):
                        if _field_of(P, g2, v2) == 'is_sorted': guarded = True
                    if guarded: break
                if not guarded:
                    # the helper that calls bsearch is itself reached only under the test: every call site of f (two levels up at most) is guarded
                    def site_guarded(g, ci, depth=0):
                        dg = g.dominators()
                        for b in dg[ci.bb]:
                            tb = g.blocks[b][-1]
                            if tb.op != 'br' or len(tb.ops) != 3 or b == ci.bb: continue
                            via = [s_ for s_ in g.succs[b][:2] if s_ == ci.bb or s_ in dg[ci.bb]]
                            if len(via) != 1: continue
                            if _field_of(P, g, tb.ops[0]) == 'is_sorted': return True
                            if any(_field_of(P, g2, v2) == 'is_sorted' for (g2, v2, _) in P.leaves(g, _cond_root(g, tb.ops[0]))): return True
                        if depth >= 2: return False
                        sites = [(h, cj) for h in P.defined.values() for cj, ct in P.calls(h) if ct == ('direct', g.name)]
                        return bool(sites) and all(site_guarded(h, cj, depth + 1) for h, cj in sites)
                    sites = [(h, cj) for h in P.defined.values() for cj, ct in P.calls(h) if ct == ('direct', f.name)]
                    guarded = bool(sites) and all(site_guarded(h, cj) for h, cj in sites)
                if not guarded:
                    sem = _sorted_guard_semantic(P, f)
                    if sem is None:
                        raise AnalysisBroken('TAB-5: cannot relate the condition under which bsearch at %s is reached to the is_sorted flag (neither structurally nor by abstract execution of %s)' % (i.loc, base_name(f.name)))
                    guarded = sem
                rep.check(guarded, 'bsearch at %s is reached only under a test of the table\'s is_sorted flag (unsorted lists take the linear scan)' % i.loc, i.loc,
                          '%s: binary search without consulting is_sorted' % base_name(f.name), detail={'conditional_dominators_seen': seen_cond}, key='TAB-5|sorted-guard|%s' % base_name(f.name))


def word_storage(ctx, rep):
    """TAB-0: every word is a NUL-terminated string inside its own storage"""
    T = ctx.tables()
    rep.rule('TAB-0', 'every word of every language table is a NUL-terminated string within its own storage (a string literal, or a fixed-width row that leaves room for the '
             'terminator): C silently drops the terminator of a literal that exactly fills a char array, after which the word runs into the next row')
    n = 0
    for L in T.ordered():
        n += 1
        bad = getattr(L, 'unterminated', [])
        rep.check(not bad, '%s: all %d words are NUL-terminated in their storage' % (L.sym, len(L.words)), where(L, bad[0]) if bad else where(L), '%s: %d word(s) fill their row without a terminator' % (L.sym, len(bad)),
                  detail={'indices': bad[:8], 'first': L.words[bad[0]].decode('utf-8', 'replace') if bad else None, 'row_bytes': len(L.words[bad[0]]) if bad else None},
                  sample={'language': L.sym, 'inline_rows': getattr(L, 'inline_rows', False)}, key='TAB-0|%s' % L.sym)
    rep.instances(n, 10, 'languages')


def phrase_size(ctx, rep):
    """C17 clause 1: 16*max(len)+15*sep < POLYSEED_STR_SIZE in NFKD (internal) and NFC (caller) form"""
    T = ctx.tables(); langs = T.ordered()
    size = T.public_str_size()
    rep.rule('SIZE-1', 'for every language: 16 * (longest stored/NFKD word) + 15 * separator < sizeof(polyseed_str) and 16 * (longest NFC word) + 15 * (NFC separator) < '
             'sizeof(polyseed_str), where polyseed_str is the PUBLIC typedef of include/polyseed.h (type-resolved by clang): the property bounds both forms by the public '
             'size, because callers size their buffers with it and hand such buffers to the normalisers; the typedef compiled into the library has the same size')
    rep.check(T.str_size() == size, 'the library is compiled with the public buffer size (%d)' % size, 'include/polyseed.h', 'polyseed_str: public %d bytes, compiled %d bytes' % (size, T.str_size()),
              key='SIZE-1|public-vs-compiled')
    rep.info['POLYSEED_STR_SIZE'] = size
    rep.instances(len(langs), 10, 'languages')
    tab = {}
    for L in langs:
        key = L.sym
        md = max(len(w) for w in L.words); sd = len(L.separator)
        worst_d = NUM_WORDS * md + (NUM_WORDS - 1) * sd
        wi = max(range(len(L.words)), key=lambda i: len(L.words[i]))
        rep.check(worst_d < size, '%s: worst decomposed phrase %d bytes (+NUL) fits the %d-byte buffer' % (key, worst_d, size),
                  where(L, wi), '%s NFKD worst case vs polyseed_str[%d]' % (key, size),
                  detail={'longest_word_bytes': md, 'separator_bytes': sd, 'worst_phrase_bytes': worst_d, 'buffer': size,
                          'longest_word': L.words[wi].decode('utf-8', 'replace')},
                  sample={'language': key, 'form': 'NFKD', 'worst': worst_d, 'buffer': size}, key='SIZE-1|%s|nfkd' % key)
        try:
            mc = max(len(nfc(w)) for w in L.words); sc = len(nfc(L.separator))
        except UnicodeDecodeError:
            rep.fail('%s strings are UTF-8' % key, where(L), key); continue
        worst_c = NUM_WORDS * mc + (NUM_WORDS - 1) * sc
        if L.compose:
            rep.check(worst_c < size, '%s: worst composed phrase %d bytes (+NUL) fits the caller\'s %d-byte buffer' % (key, worst_c, size),
                      where(L), '%s NFC worst case vs polyseed_str[%d]' % (key, size),
                      detail={'longest_nfc_word_bytes': mc, 'nfc_separator_bytes': sc, 'worst_phrase_bytes': worst_c, 'buffer': size},
                      sample={'language': key, 'form': 'NFC', 'worst': worst_c, 'buffer': size}, key='SIZE-1|%s|nfc' % key)
        tab[key] = {'nfkd_worst': worst_d, 'nfc_worst': worst_c, 'compose': L.compose}
    rep.info['worst_case_bytes'] = tab


def registry_api(ctx, rep):
    """C07: the public registry accessors, evaluated abstractly on the constant registry"""
    from .bitflow import Interp, State, Ptr, BV, Tag, Unmodelled
    from .ir import LANG_STRUCT
    for cfg in (ctx.configs('path') if ctx.tier == 'thorough' else ['NsS']):
        P = ctx.prog(cfg)
        if cfg not in rep.configs: rep.configs.append(cfg)
        T = ctx.tables()
        rep.rule('TAB-6', 'registry accessors, evaluated abstractly: polyseed_get_num_langs() returns the number of registered languages; polyseed_get_lang(i) '
                 'returns the i-th registry entry for every valid i; polyseed_get_lang_name / _name_en return the name fields of the table they are given')
        f = P.fn('polyseed_get_num_langs')
        I = Interp(P); o = I.run(f, [], State())
        n = o[0].ret.concrete() if len(o) == 1 else None
        rep.check(n == len(T.registry), 'polyseed_get_num_langs() = %d' % len(T.registry), '%s:%s' % ((f.file or '').replace('/repo/', ''), f.line), f.name, detail=n,
                  sample={'num_langs': n}, key='TAB-6|num')
        g = P.fn('polyseed_get_lang')
        for k, sym in enumerate(T.registry):
            I = Interp(P); o = I.run(g, [BV.const(k, 32)], State())
            ok = len(o) == 1 and isinstance(o[0].ret, Ptr) and o[0].ret.obj == 'g:' + sym and o[0].ret.coff() == 0
            rep.check(ok, 'polyseed_get_lang(%d) = &%s' % (k, sym), '%s:%s' % ((g.file or '').replace('/repo/', ''), g.line), g.name, detail=repr(o[0].ret) if o else None,
                      key='TAB-6|lang%d' % k)
        lf = {nm: (o_, sz) for o_, (nm, sz) in P.field_table(LANG_STRUCT).items()}
        for fn, fld in (('polyseed_get_lang_name', 'name'), ('polyseed_get_lang_name_en', 'name_en')):
            h = P.fn(fn)
            I = Interp(P); st = State(); st.mem.new('lang', 8, 0)
            def hook(I_, st_, ptr, nbytes, inst, as_ptr):
                c0 = ptr.parts[0] if ptr.parts else ptr.coff()
                for nm, (o_, sz) in lf.items():
                    if o_ == c0: return Tag(nm)
                raise Unmodelled('accessor reads the language table at offset %s' % c0)
            st.mem.hooks = {'lang': hook}
            o = I.run(h, [Ptr('lang', 0)], st)
            rep.check(len(o) == 1 and o[0].ret == Tag(fld), '%s(lang) = lang->%s' % (fn, fld), '%s:%s' % ((h.file or '').replace('/repo/', ''), h.line), fn, key='TAB-6|' + fn)
