"""Secret-taint pass (C16): flow-insensitive, interprocedural, object-granular over the points-to objects.

Sources
  * loads of the fields `secret` / `checksum` of a struct polyseed_data object (the other two fields are public metadata)
  * bytes read through i8* parameters of externally visible functions (phrase, password, serialized seed)
  * the output of dep:randbytes
Propagation only: instructions (result tainted iff an operand is), stores (object tainted iff value is), memcpy,
dep:pbkdf2_sha256 (key <- pw, salt), dep:u8_nfc / dep:u8_nfkd (out <- in), direct calls (args -> params, ret -> result),
bsearch (result <- key), implicit flow to a function's return value (tainted branch => tainted return).
"""
from .ir import DATA_STRUCT, is_ptr_ty


class Taint:
    def __init__(self, P):
        self.P = P; self.pts = P.points_to()
        self.tv = set()     # ('v', fn, id) / ('p', fn, n) / ('ret', fn)
        self.to = set()     # tainted objects
        self.why = {}       # object -> first tainting instruction (for reports)
        self.taint_insts = {}   # object -> set of (fn name, inst id) that may write tainted data into it
        self.public_fields = self._public_ranges()
        self._solve()

    def _public_ranges(self):
        ft = self.P.field_table(DATA_STRUCT)
        return [(o, o + sz) for o, (n, sz) in ft.items() if n in ('birthday', 'features')]

    def _vt(self, f, v):
        k = v['k']
        if k == 'i': return ('v', f.name, v['id']) in self.tv
        if k == 'a': return ('p', f.name, v['n']) in self.tv
        if k == 'ce': return any(self._vt(f, o) for o in v['ops'])
        return False

    def _objs_tainted(self, f, v):
        return any(o in self.to for o in self.pts.of(f, v))

    def _obj_size(self, o):
        if o[0] == 'alloca': return self.P.defined[o[1]].insts[o[2]].d['alloc_size']
        if o[0] == 'byval': return self.P.defined[o[1]].params[o[2]].get('byval')
        return None

    def _taint_objs(self, f, ptr, inst, min_size=None):
        ch = False
        for o in self.pts.of(f, ptr):
            if o[0] in ('func',):
                continue
            if min_size is not None and self._obj_size(o) is not None and self._obj_size(o) < min_size:
                continue      # (points-to is field-insensitive for structs of pointers: an object too small for the output is not its target)
            if o[0] == 'global' and self.P.globals.get(o[1], {}).get('constant'):
                continue
            self.taint_insts.setdefault(o, set()).add((f.name, inst.id))
            if o not in self.to:
                self.to.add(o); self.why[o] = inst; ch = True
        return ch

    def _is_seed_ptr_public(self, f, addr):
        """address is a constant-offset GEP from a %struct.polyseed_data* landing in a public field"""
        v = addr; off = 0
        while v['k'] == 'i':
            i = f.insts[v['id']]
            if i.op == 'getelementptr':
                if i.d['var_steps']: return False
                off += i.d['const_off']
                if i.d['src_ty'] == '%' + DATA_STRUCT:
                    return any(a <= off < b for a, b in self.public_fields)
                v = i.ops[0]
            elif i.op == 'bitcast':
                v = i.ops[0]
            else:
                return False
        return False

    def _solve(self):
        P = self.P
        # seed: externally supplied byte strings, and seed objects as a whole
        for f in P.defined.values():
            if f.local: continue
            for n, p in enumerate(f.params):
                if p['ty'] == 'i8*':
                    self.to.add(('ext', f.name, n)); self.to.add(('extdeep', f.name, n))
                if p['ty'] == '%' + DATA_STRUCT + '*':
                    self.to.add(('ext', f.name, n))
        lazy = {r.fn.name: r for r in P.roles('lazy')}
        changed = True
        while changed:
            changed = False
            for f in P.defined.values():
                if f.name in lazy: continue      # summarised at its call sites (out <- in), so that one caller's secrets do not taint another caller's buffer
                for i in f.all_insts():
                    dst = ('v', f.name, i.id)
                    op = i.op
                    if op == 'load':
                        t = self._vt(f, i.ops[0])
                        if not t and self._objs_tainted(f, i.ops[0]):
                            t = not self._is_seed_ptr_public(f, i.ops[0])
                        if t and dst not in self.tv: self.tv.add(dst); changed = True
                    elif op == 'store':
                        if self._vt(f, i.ops[0]):
                            if self._taint_objs(f, i.ops[1], i): changed = True
                            else:
                                for o in self.pts.of(f, i.ops[1]):
                                    self.taint_insts.setdefault(o, set()).add((f.name, i.id))
                    elif op == 'ret':
                        if i.ops and self._vt(f, i.ops[0]) and ('ret', f.name) not in self.tv:
                            self.tv.add(('ret', f.name)); changed = True
                    elif op == 'br':
                        if len(i.ops) == 3 and self._vt(f, i.ops[0]) and f.d['ret_bits'] and ('ret', f.name) not in self.tv:
                            self.tv.add(('ret', f.name)); changed = True
                    elif op == 'call':
                        if P.is_dbg(i): continue
                        t = P.call_target(i)
                        if t[0] == 'direct' and t[1] in lazy:
                            r_ = lazy[t[1]]
                            if self._objs_tainted(f, i.ops[r_.args['src']]) or self._vt(f, i.ops[r_.args['src']]):
                                if self._taint_objs(f, i.ops[r_.args['out']], i): changed = True
                        elif t[0] == 'direct' and t[1] in P.defined:
                            for n, a in enumerate(i.ops):
                                if self._vt(f, a) and ('p', t[1], n) not in self.tv:
                                    self.tv.add(('p', t[1], n)); changed = True
                            if ('ret', t[1]) in self.tv and dst not in self.tv:
                                self.tv.add(dst); changed = True
                        elif t[0] == 'direct':
                            n = t[1]
                            if n.startswith('llvm.memcpy') or n.startswith('llvm.memmove') or n in ('memcpy', 'memmove'):
                                if self._objs_tainted(f, i.ops[1]) or self._vt(f, i.ops[1]):
                                    if self._taint_objs(f, i.ops[0], i): changed = True
                            elif n == 'bsearch':
                                if (self._objs_tainted(f, i.ops[0]) or self._vt(f, i.ops[0])) and dst not in self.tv:
                                    self.tv.add(dst); changed = True
                                # comparator parameters receive the key/element pointers: handled by points-to + loads
                            elif n.startswith('llvm.memset') or n == 'memset':
                                if self._vt(f, i.ops[1]):
                                    if self._taint_objs(f, i.ops[0], i): changed = True
                        elif t[0] == 'dep':
                            d = t[1]
                            if d == 'randbytes':
                                if self._taint_objs(f, i.ops[0], i): changed = True
                            elif d == 'pbkdf2_sha256':
                                if any(self._objs_tainted(f, i.ops[k]) or self._vt(f, i.ops[k]) for k in (0, 2)):
                                    klen = i.ops[6]['v'] if len(i.ops) > 6 and i.ops[6]['k'] == 'c' else None
                                    if self._taint_objs(f, i.ops[5], i, min_size=klen): changed = True
                            elif d in ('u8_nfc', 'u8_nfkd'):
                                if self._objs_tainted(f, i.ops[0]) or self._vt(f, i.ops[0]):
                                    if self._taint_objs(f, i.ops[1], i): changed = True
                                    # (the returned length is not secret material in the sense of C16: not tainted)
                        elif t[0] == 'indirect':
                            for o in self.pts.of(f, t[1]):
                                if o[0] == 'func' and o[1] in P.defined:
                                    for n, a in enumerate(i.ops):
                                        if self._vt(f, a) and ('p', o[1], n) not in self.tv:
                                            self.tv.add(('p', o[1], n)); changed = True
                                    if ('ret', o[1]) in self.tv and dst not in self.tv:
                                        self.tv.add(dst); changed = True
                    elif op in ('alloca', 'switch', 'unreachable'):
                        pass
                    elif op == 'phi':
                        if any(self._vt(f, v) for v, _ in i.d['incoming']) and dst not in self.tv:
                            self.tv.add(dst); changed = True
                    else:
                        if any(self._vt(f, v) for v in i.ops) and dst not in self.tv:
                            self.tv.add(dst); changed = True

    def _has_array(self, ty, depth=0):
        """struct type (transitively) containing an array member: a buffer. Structs of scalars / pointers passed around by value are treated like
        scalar locals (the compiler scalarises them; they hold at most a few words, not a copy of the phrase, mask or index vector)"""
        if '[' in ty and ' x ' in ty: return True
        if ty.startswith('%') and depth < 4:
            st = self.P.structs.get(ty[1:].rstrip('*'))
            if st: return any(self._has_array(fl['ty'], depth + 1) for fl in st['fields'])
        return False

    def secret_locals(self):
        """aggregate allocas (arrays / structs) that may receive tainted data: [(function, alloca inst)]"""
        out = []
        for o in sorted(self.to):
            if o[0] == 'alloca':
                f = self.P.defined[o[1]]; a = f.insts[o[2]]
                if a.d['alloc_kind'] == 'array' or (a.d['alloc_kind'] == 'struct' and self._has_array(a.d['alloc_ty'])):
                    out.append((f, a))
        return out
