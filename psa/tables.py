"""E4: constant tables read from the IR's global initialisers (language tables, registry, GF table, sizes)."""
import hashlib, json, os, unicodedata
from .frontend import AnalysisBroken, VERIF
from .ir import LANG_STRUCT

REF = os.path.join(VERIF, 'ref')


class Lang:
    pass


class Tables:
    def __init__(self, P):
        self.P = P
        ft = P.field_table(LANG_STRUCT)          # off -> (name, size)
        self.langs = {}
        self.unterminated = []                   # strings that fill their storage without a terminating NUL
        for g in P.globals.values():
            if g['ty'] != '%' + LANG_STRUCT or g['decl']:
                continue
            L = Lang(); L.sym = g['name']; L.constant = g['constant']
            L.file = g.get('file', '?'); L.line = g.get('line', '?')
            init = g['init']
            if init['k'] != 'struct':
                raise AnalysisBroken('language table %s has an unexpected initialiser' % g['name'])
            vals = {}
            mem = P.members(LANG_STRUCT)
            for f in init['fields']:
                for nm, (ob, sb) in mem.items():
                    if sb >= 8 and ob // 8 == f['off'] and nm not in ('is_sorted', 'has_prefix', 'has_accents', 'compose'):
                        vals[nm] = f['v']
            for nm in ('is_sorted', 'has_prefix', 'has_accents', 'compose'):
                if nm not in mem: continue
                ob, sb = mem[nm]
                for f in init['fields']:
                    sz = f['v'].get('size') or 0
                    if f['v']['k'] in ('int', 'zero') and f['off'] * 8 <= ob < (f['off'] + max(sz, 1)) * 8:
                        raw = f['v'].get('v', 0) if f['v']['k'] == 'int' else 0
                        width = sb if sb < 8 else 8
                        vals[nm] = {'k': 'int', 'v': (raw >> (ob - 8 * f['off'])) & ((1 << width) - 1)}
            missing = [nm for nm in ('name', 'name_en', 'separator', 'is_sorted', 'has_prefix', 'has_accents', 'compose', 'words') if nm not in vals]
            if missing:
                raise AnalysisBroken('language table %s: fields %s are not plain struct members in the compiled layout (bit-fields / renamed?)' % (g['name'], missing))
            for nm in ('name', 'name_en', 'separator'):
                setattr(L, nm, self.cstr(vals[nm]))
            for nm in ('is_sorted', 'has_prefix', 'has_accents', 'compose'):
                if vals[nm]['k'] not in ('int',):
                    raise AnalysisBroken('flag %s of %s is not a constant' % (nm, g['name']))
                setattr(L, nm, bool(vals[nm]['v']))
            w = vals['words']
            if w['k'] != 'array':
                raise AnalysisBroken('words of %s is not a constant array' % g['name'])
            nu = len(self.unterminated)
            L.words = [self.cstr(e) for e in w['elems']]
            L.unterminated = [i_ for i_, e in enumerate(w['elems']) if e['k'] == 'bytes' and bytes.fromhex(e['hex']).find(b'\0') < 0]
            L.inline_rows = any(e['k'] == 'bytes' for e in w['elems'])
            self.langs[g['name']] = L
        # registry: a global array of pointers to language tables
        self.registry = None
        for g in P.globals.values():
            if g['ty'].endswith('x %' + LANG_STRUCT + '*]') and 'init' in g:
                if self.registry is not None:
                    raise AnalysisBroken('more than one language registry array')
                self.registry_sym = g['name']; self.registry_constant = g['constant']
                self.registry = [e.get('name') if e['k'] == 'gref' else None for e in g['init']['elems']] \
                    if g['init']['k'] == 'array' else None
        if self.registry is None:
            raise AnalysisBroken('language registry array not found')

    def cstr(self, v):
        """bytes of the NUL-terminated string a constant pointer refers to (None for NULL)"""
        if v['k'] == 'zero':
            return None
        if v['k'] == 'bytes':
            # the string is stored inline (an array of char rows instead of an array of pointers)
            b = bytes.fromhex(v['hex'])
            n = b.find(b'\0')
            if n < 0:
                self.unterminated.append(b); return b
            return b[:n]
        if v['k'] != 'gref':
            raise AnalysisBroken('unexpected pointer constant %r' % (str(v)[:120],))
        g = self.P.globals.get(v['name'])
        if g is None or 'init' not in g:
            raise AnalysisBroken('string constant %s has no initialiser' % v['name'])
        init = g['init']
        if init['k'] == 'bytes':
            b = bytes.fromhex(init['hex'])
        elif init['k'] == 'zero':
            b = b'\0' * init['size']
        else:
            raise AnalysisBroken('string constant %s: unexpected initialiser kind %s' % (v['name'], init['k']))
        b = b[v['off']:]
        n = b.find(b'\0')
        if n < 0:
            raise AnalysisBroken('string constant %s is not NUL-terminated' % v['name'])
        return b[:n]

    def str_size(self):
        """sizeof(polyseed_str) as compiled into the library (debug info); if the library no longer uses the public typedef, the public header's value"""
        t = self.P.ditypes.get('typedef:polyseed_str')
        if not t:
            return self.public_str_size()
        return t['size_bits'] // 8

    def public_str_size(self):
        """sizeof(polyseed_str) as a caller sees it: the typedef in include/polyseed.h, type-resolved by clang"""
        if getattr(self, '_pub', None) is None:
            import subprocess, re
            from . import frontend
            root = frontend.repo_root()
            hdr = os.path.join(root, 'include', 'polyseed.h')
            p = subprocess.run(['clang-14', '-fsyntax-only', '-x', 'c', '-w', '-Xclang', '-ast-dump=json', '-Xclang', '-ast-dump-filter=polyseed_str', hdr],
                               stdout=subprocess.PIPE, stderr=subprocess.PIPE, text=True)
            txt = p.stdout; dec = json.JSONDecoder(); i = 0; size = None
            while i < len(txt):
                while i < len(txt) and txt[i] in ' \n\r\t': i += 1
                if i >= len(txt): break
                try: o, i = dec.raw_decode(txt, i)
                except ValueError: break
                if o.get('kind') == 'TypedefDecl' and o.get('name') == 'polyseed_str':
                    m = re.fullmatch(r'char\[(\d+)\]', (o.get('type') or {}).get('desugaredQualType') or (o.get('type') or {}).get('qualType') or '')
                    if m: size = int(m.group(1))
            if size is None:
                raise AnalysisBroken('public typedef polyseed_str (char[N]) not found in include/polyseed.h')
            self._pub = size
        return self._pub

    def ordered(self):
        return [self.langs[s] for s in self.registry if s in self.langs]


def nfkd(b):
    return unicodedata.normalize('NFKD', b.decode('utf-8')).encode('utf-8')


def nfc(b):
    return unicodedata.normalize('NFC', b.decode('utf-8')).encode('utf-8')


def strip_accents(b):
    return bytes(c for c in b if c < 0x80)


def digest_words(words):
    return hashlib.sha256(b'\0'.join(words)).hexdigest()
