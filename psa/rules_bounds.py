"""C14 (and parts of C13/C17): bounded indexed writes, input immutability, normaliser output buffers, no abort on the release path."""
from .frontend import AnalysisBroken
from .ir import PUBLIC_API as PUBLIC_API_NAMES, base_name, const_of, DATA_STRUCT
from .rules_cmp import inst_of, addr_base, vk, cond_class, cond_facts, cursor_family
from .rules_effects import written_pointers
from . import bitflow


# exceptions are one symbol wide, with the reason
IDX_EXCEPTIONS = {
    'polyseed_get_lang': 'the index is a documented caller precondition (0 <= i < polyseed_get_num_langs(), asserted in debug builds); it is not one of '
                         'the input classes C14 quantifies over (phrases, passwords, 32-byte buffers, coins)',
}


def strip_ext(f, v):
    """SSA value behind integer extensions / truncations"""
    while v['k'] == 'i':
        i = f.insts[v['id']]
        if i.op in ('sext', 'zext', 'trunc'): v = i.ops[0]
        else: break
    return v


def order_facts(g, v, outcome):
    """facts ('lt', key, K) / ('ne', key, K) / ('ge', key, K) implied by the i1 value v having the given outcome"""
    i = inst_of(g, v)
    out = set()
    if i is None or i.op != 'icmp': return out
    a, b = i.ops; p = i.d['pred']
    ca, cb = const_of(a), const_of(b)
    if cb is None and ca is not None:
        a, b, ca, cb = b, a, cb, ca
        p = {'slt': 'sgt', 'sgt': 'slt', 'sle': 'sge', 'sge': 'sle', 'ult': 'ugt', 'ugt': 'ult', 'ule': 'uge', 'uge': 'ule'}.get(p, p)
    if cb is None: return out
    bits = i.d['op_bits']
    if cb >> (bits - 1) and p[0] == 's': return out       # negative signed constants: not needed
    x = vk(strip_ext(g, a))
    if x is None: return out
    if not outcome:
        p = {'slt': 'sge', 'sge': 'slt', 'sle': 'sgt', 'sgt': 'sle', 'ult': 'uge', 'uge': 'ult', 'ule': 'ugt', 'ugt': 'ule', 'eq': 'ne', 'ne': 'eq'}[p]
    if p in ('ult', 'slt'): out.add(('lt', x, cb))
    elif p in ('ule', 'sle'): out.add(('lt', x, cb + 1))
    elif p == 'ne': out.add(('ne', x, cb))
    elif p == 'eq': out.add(('lt', x, cb + 1)); out.add(('eq', x, cb))
    elif p in ('uge', 'sge'): out.add(('ge', x, cb))
    elif p in ('ugt', 'sgt'): out.add(('ge', x, cb + 1))
    return out


def must_facts(g, facts_fn):
    """forward must-dataflow of branch-outcome facts (see rules_cmp.nonnul_dataflow); handles short-circuit phi-of-i1 conditions"""
    nb = len(g.blocks)
    IN = {b: None for b in range(nb)}; IN[0] = set()
    EDGE = {}
    def meet(a, b):
        if a is None: return b
        if b is None: return a
        return a & b
    changed = True; it = 0
    while changed and it < 60:
        changed = False; it += 1
        for b in range(nb):
            if IN[b] is None: continue
            t = g.blocks[b][-1]; succs = g.succs[b]
            for k, s_ in enumerate(succs):
                f = set(IN[b])
                if t.op == 'switch':
                    x = vk(strip_ext(g, t.ops[0]))
                    if x is not None:
                        tg = [c for c, tb in t.d['cases'] if tb == s_]
                        if s_ == t.d['default'] and not tg:
                            for c, _ in t.d['cases']: f.add(('ne', x, c))
                        elif len(tg) == 1 and s_ != t.d['default']:
                            f.add(('lt', x, tg[0] + 1)); f.add(('eq', x, tg[0]))
                if t.op == 'br' and len(t.ops) == 3 and succs[0] != succs[1]:
                    outcome = (k == 0)
                    ci = inst_of(g, t.ops[0])
                    while ci is not None and ci.op == 'xor' and const_of(ci.ops[1]) == 1:      # !x : same condition, flipped outcome
                        outcome = not outcome; ci = inst_of(g, ci.ops[0])
                    if ci is not None and ci.op == 'phi' and ci.bb == b:
                        acc = None
                        for v, pb in ci.d['incoming']:
                            c = const_of(v)
                            if c is not None and bool(c) != outcome: continue
                            e = EDGE.get((pb, b))
                            if e is None: continue
                            acc = meet(acc, e | (facts_fn(g, v, outcome) if c is None else set()))
                        if acc is not None: f |= acc
                    else:
                        f |= facts_fn(g, {'k': 'i', 'id': ci.id}, outcome) if ci is not None else set()
                if EDGE.get((b, s_)) != f:
                    EDGE[(b, s_)] = f; changed = True
        for b in range(1, nb):
            acc = None
            for p_ in g.preds[b]:
                if (p_, b) in EDGE: acc = meet(acc, EDGE[(p_, b)])
            if acc is not None and acc != IN[b]:
                IN[b] = acc; changed = True
    return IN, EDGE


def counter_invariant(g, phi, IN, EDGE):
    """for an integer loop variable C (a phi): if every value flowing back into it is C itself or C+1, the start is a constant, and each C+1 is
    guarded (must-dataflow facts on the back edge or at the increment) by a comparison with a constant K, returns ('strict', K) meaning C < K at the
    header, or ('weak', K) meaning C <= K"""
    if phi.op != 'phi': return None
    init = []; steps = []     # steps: (add inst, edge (pred block, phi block))
    seen = set()
    def feed(v, edge, depth=0):
        c = const_of(v)
        if c is not None: init.append(c); return True
        k = vk(v)
        if k == ('i', phi.id): return True                     # unchanged around the loop
        a = inst_of(g, v)
        if a is None or depth > 4: return False
        if a.op == 'add' and vk(a.ops[0]) == ('i', phi.id) and const_of(a.ops[1]) == 1:
            steps.append((a, edge)); return True
        if a.op == 'phi' and a.id not in seen:
            seen.add(a.id)
            return all(feed(x, (pb, a.bb), depth + 1) for x, pb in a.d['incoming'])      # facts are looked up on the edge into the merging phi
        return False
    for v, pb in phi.d['incoming']:
        if not feed(v, (pb, phi.bb)): return None
    if len(set(init)) != 1 or not steps: return None
    init = init[0]
    kinds = []
    for step, edge in steps:
        facts = set(EDGE.get(edge, set())) | (IN.get(step.bb) or set())
        best = None
        for f in facts:
            if f[0] == 'lt' and f[1] == ('i', step.id): best = ('strict', f[2])          # C+1 < K on the way back
            if f[0] == 'ne' and f[1] == ('i', step.id) and init < f[2]: best = best or ('strict', f[2])
        if best and init < best[1]: kinds.append(best); continue
        got = None
        for f in (IN.get(step.bb) or set()):
            if f[0] in ('lt', 'ne') and f[1] == ('i', phi.id) and init <= f[2]: got = ('weak', f[2])      # incremented only while C < K / C != K
        if got: kinds.append(got); continue
        return None
    K = max(k for _, k in kinds)
    if all(kd == 'strict' for kd, _ in kinds): return ('strict', K)
    return ('weak', K)


def _index_from_writer(P, g, gep, S):
    """the GEP indexes a polyseed_str local with a value that is (a phi/sum of) results of calls that were handed that same buffer"""
    base, off = addr_base(g, gep.ops[0])
    if base is None or base[0] != 'i' or g.insts[base[1]].op != 'alloca' or g.insts[base[1]].d['alloc_size'] != S: return False
    seen = set(); work = [strip_ext(g, gep.d['var_steps'][0]['idx'])]
    found = False
    while work:
        v = work.pop()
        k = vk(v)
        if k is None or k in seen: continue
        seen.add(k)
        i = inst_of(g, v)
        if i is None: continue
        if i.op == 'phi': work += [x for x, _ in i.d['incoming']]
        elif i.op in ('add', 'sext', 'zext', 'trunc'): work += [x for x in i.ops if x['k'] == 'i']
        elif i.op == 'call':
            if any(addr_base(g, a)[0] == base for a in i.ops if a['k'] == 'i'): found = True
            else: return False
        else: return False
    return found


def counters(ctx, rep):
    for cfg in (ctx.configs('path') if ctx.tier == 'thorough' else ['NsS']):
        P = ctx.prog(cfg); pts = P.points_to()
        if cfg not in rep.configs: rep.configs.append(cfg)
        T = ctx.tables()
        rep.rule('IDX-1', 'monotone-counter rule for the indexed accesses whose trip count depends on string contents or table size (utf8_nfkd_lazy '
                 'norm[size], str_split words[w], lang_search words[j]): the index is a loop counter with constant start and unit stride whose increment is '
                 'guarded by a comparison against a constant K on every path (must-dataflow), giving index < K (or <= K after the loop); K (resp. K+1) '
                 'does not exceed the element count of every object the base pointer may denote')
        from .rules_cmp import ensure_semantics
        decided = ensure_semantics(ctx, cfg, P)
        targets = [(r_.fn, r_.args['out']) for r_ in P.roles('lazy')] + [(r_.fn, r_.args['words']) for r_ in P.roles('tokeniser')]
        ls_ = P.fns('lang_search')
        targets += [(g_, n_) for g_ in ls_ for n_, p_ in enumerate(g_.params) if p_['ty'].endswith('*') and not p_['ty'].endswith(')*') and p_['ty'] != 'i8*'][:max(1, len(ls_))]
        if not P.roles('lazy') or not P.roles('tokeniser') or not ls_: raise AnalysisBroken('anchors of IDX-1 not found (lazy normaliser / tokeniser / lang_search)')
        anchors = set(base_name(g_.name) for g_, _ in targets)
        nsites = 0
        nskipped = 0
        for g, argno in targets:
            if g.name in decided:
                nskipped += 1; rep.ok('%s: bounds of its indexed accesses decided semantically (TOK-1 / LAZY-1)' % base_name(g.name)); continue
            for _once in (0,):
                IN, EDGE = must_facts(g, order_facts)
                fam = cursor_family(g, argno)
                for i in g.all_insts():
                    if i.op != 'getelementptr' or not i.d['var_steps']: continue
                    base, off = addr_base(g, i.ops[0])
                    if base not in fam: continue
                    users = [u for u in g.all_insts() if u.op in ('load', 'store') and u.ops[-1 if u.op == 'store' else 0] == {'k': 'i', 'id': i.id}]
                    if not users: continue
                    nsites += 1
                    step = i.d['var_steps'][0]; stride = step['stride']
                    idx = strip_ext(g, step['idx'])
                    # element count of every object the base may denote
                    objs = pts.of(g, i.ops[0])
                    sizes = []
                    for o in objs:
                        if o[0] == 'alloca': sizes.append(P.defined[o[1]].insts[o[2]].d['alloc_size'])
                        elif o[0] == 'global': sizes.append(P.globals[o[1]]['size'])
                        elif o[0] in ('ext', 'extdeep'):
                            # caller-owned object: documented size for the few typed buffers
                            pf = P.defined[o[1]].params[o[2]]['ty']
                            if pf == '%struct.polyseed_lang*': sizes.append(P.structs['struct.polyseed_lang']['size'])
                            elif pf == 'i8*': sizes.append(T.str_size())
                            else: sizes.append(None)
                    const_off = off + i.d['const_off']
                    bound = None
                    if idx['k'] == 'i':
                        inv = counter_invariant(g, g.insts[idx['id']], IN, EDGE)
                        for f_ in (IN.get(i.bb) or set()):
                            if f_[0] == 'lt' and f_[1] == ('i', idx['id']): bound = ('in-guard', f_[2])
                        if bound is None and inv and inv[0] == 'weak':
                            for f_ in (IN.get(i.bb) or set()):
                                if f_[0] == 'ne' and f_[1] == ('i', idx['id']) and f_[2] == inv[1]: bound = ('in-guard', inv[1])     # C <= K and C != K
                        if bound is None and inv:
                            bound = (inv[0], inv[1] if inv[0] == 'strict' else inv[1] + 1)
                    ok = bound is not None and sizes and all(sz is not None and const_off + bound[1] * stride <= sz for sz in sizes)
                    rep.check(ok, 'indexed %s at %s: index < %s, every target object has room' % (users[0].op, i.loc, bound[1] if bound else '?'), i.loc,
                              '%s: indexed %s not bounded by its object' % (base_name(g.name), users[0].op),
                              detail={'bound': bound, 'object_sizes_bytes': sizes, 'stride': stride, 'const_offset': const_off},
                              sample={'function': g.name, 'site': i.loc, 'bound': bound, 'objects': sizes}, key='IDX-1|%s|%s' % (base_name(g.name), users[0].op))
        rep.instances(nsites + 2 * nskipped, 3, 'string-dependent indexed access sites')

        rep.rule('IDX-2', 'inventory: every load/store through a variable-index address in the library is covered by one of: concrete bounds-checked '
                 'execution in a bitflow harness (counter-controlled loops), the monotone-counter rule IDX-1, or is a read of a constant table indexed by a '
                 'value proved < table size; anything else is an unclassified indexed access')
        covered = set((fn, loc) for fn, loc in bitflow.ACCESS_LOG)
        from .rules_cmp import comparators
        cmp_fns = set(base_name(g_.name) for g_, _ in comparators(P)[1].values()) | anchors
        from .rules_cmp import writer_functions
        writers_ = set(base_name(g_.name) for g_, _, _ in writer_functions(P))
        ninv = 0
        for g in P.defined.values():
            bn = base_name(g.name)
            if bn == 'polyseed_lang_check': continue          # debug self-test over constant tables (assertion builds only)
            for i in g.all_insts():
                if i.op != 'getelementptr' or not i.d['var_steps']: continue
                users = [u for u in g.all_insts() if u.op == 'store' and u.ops[1] == {'k': 'i', 'id': i.id}]
                users += [u for u in g.all_insts() if u.op == 'load' and u.ops[0] == {'k': 'i', 'id': i.id} and not (u.d['bits'] == 8 and bn not in anchors)]
                # (byte reads through NUL-terminated cursors are the subject of CUR-1, not of this inventory)
                for u in users:
                    ninv += 1
                    how = None
                    if u.op == 'store' and _index_from_writer(P, g, i, T.str_size()):
                        how = 'SIZE-1 (terminator stored at the length the phrase writer returned, inside the polyseed_str local it filled)'
                    if how: pass
                    elif bn in IDX_EXCEPTIONS: how = 'exception: ' + IDX_EXCEPTIONS[bn]
                    elif (bn, u.loc) in covered: how = 'bitflow'
                    elif bn in anchors: how = 'IDX-1'
                    elif bn in cmp_fns and u.op == 'load' and u.d['bits'] == 8: how = 'CUR-1 (NUL-cursor discipline, index form)'
                    elif bn in writers_: how = 'WRITER-1 / HELP-1 (copies exactly the source up to its NUL) + SIZE-1 (the sum of all sources fits the buffer)'
                    elif g.name in decided: how = 'helper of a string function the semantic analysis (LAZY-1 / TOK-1 / CMP-8 / WRITER-1) decided for all inputs, every access of the helper included'
                    rep.check(how is not None, 'indexed %s at %s in %s is covered (%s)' % (u.op, u.loc, bn, how), u.loc, '%s: unclassified variable-index %s' % (bn, u.op),
                              sample={'site': u.loc, 'function': bn, 'covered_by': how} if ninv <= 4 else None, key='IDX-2|%s|%s' % (bn, u.op))
        rep.instances(ninv, 8, 'variable-index access sites')
        rep.info['indexed_sites'] = ninv


def input_immutability(ctx, rep, cfgs=None):
    for cfg in cfgs or ctx.configs('effect'):
        P = ctx.prog(cfg); pts = P.points_to()
        if cfg not in rep.configs: rep.configs.append(cfg)
        rep.rule('CONST-1', 'inputs are not modified: for every externally visible function and every parameter declared pointer-to-const (phrase, '
                 'password, serialized seed, const seed, language), no store / memset / memcpy destination / output argument of an injected or external '
                 'call anywhere in the library may target the caller\'s object behind that parameter (points-to); the only API functions with a '
                 'non-const seed parameter are polyseed_crypt and polyseed_free')
        protected = set()
        for f in P.defined.values():
            if f.local: continue
            pc = f.d.get('param_const') or []
            for n, c in enumerate(pc):
                if c and n < len(f.params) and f.params[n]['ty'].endswith('*'):
                    protected.add(('ext', f.name, n)); protected.add(('extdeep', f.name, n))
        rep.instances(len(protected) // 2, 8, 'const-qualified pointer parameters')
        nw = 0
        for f in P.defined.values():
            for i in f.all_insts():
                for ptr in written_pointers(P, f, i):
                    nw += 1
                    hit = [o for o in pts.of(f, ptr) if o in protected]
                    rep.check(not hit, 'write at %s does not target a const input' % i.loc, i.loc, '%s writes into const parameter %s' % (base_name(f.name), hit[:1]),
                              detail=[str(h) for h in hit[:3]], key='CONST-1|%s|%s' % (base_name(f.name), hit[0][1:] if hit else ''))
        rep.instances(nw, 20, 'write sites')
        rep.rule('IN-1', 'NUL-terminated inputs (phrase, password: the caller objects that reach utf8_nfkd_lazy as its source) are read only by the lazy normaliser front end and '
                 'the injected normaliser it calls - whose byte-by-byte, terminator-bounded reading is decided by LAZY-1 / CUR-1; no other function loads from them or hands '
                 'them to memcmp / memcpy / str* with a length of its own (such a read can run past the terminator of a short input)')
        lazies = [r_.fn for r_ in P.roles('lazy')]
        strings = set()
        for r_ in P.roles('lazy'):
            strings |= {o for o in pts.pts.get(('p', r_.fn.name, r_.args['src']), set()) if o[0] in ('ext', 'extdeep')
                        and not (o[0] == 'extdeep' and o[1] in P.defined and P.defined[o[1]].params[o[2]]['ty'] != 'i8*')}
            # (what a public *struct* parameter points to deep down - the word strings of a language handle given to the debug self-test - is table data, not an input string)
        rep.instances(len(strings), 2, 'string input objects')
        lazy_closure = set()
        for lz in lazies: lazy_closure |= set(P.reachable_from([lz.name]))
        nr = 0
        for f in P.defined.values():
            if f.name in lazy_closure: continue
            for i in f.all_insts():
                srcs = []
                if i.op == 'load': srcs = [i.ops[0]]
                elif i.op == 'call' and not P.is_dbg(i):
                    t = P.call_target(i)
                    if t[0] == 'direct' and t[1] not in P.defined and not t[1].startswith('llvm.dbg') and not t[1].startswith('llvm.lifetime'):
                        srcs = [a for a in i.ops if a['k'] in ('i', 'a')]
                    elif t[0] == 'dep':
                        srcs = [a for a in i.ops if a['k'] in ('i', 'a')]
                for a in srcs:
                    hit = [o for o in pts.of(f, a) if o in strings]
                    if hit:
                        nr += 1
                        rep.fail('input strings are read only through utf8_nfkd_lazy', i.loc, '%s reads the caller\'s string itself (%s)' % (base_name(f.name), i.op if i.op == 'load' else P.call_target(i)[1]),
                                 detail={'object': str(hit[0])}, key='IN-1|%s|%s' % (base_name(f.name), i.loc.split(':')[-1]))
        if not nr: rep.ok('no reader of the input strings outside the lazy normaliser', {'string_objects': len(strings)})
        api_nonconst_seed = sorted(f.name for f in P.defined.values() if not f.local and f.name.startswith('polyseed_') and
                                   any(p['ty'] == '%' + DATA_STRUCT + '*' and not (f.d.get('param_const') or [False] * 9)[n] for n, p in enumerate(f.params))
                                   and f.d.get('visibility') != 'hidden' or (not f.local and cfg[2] == 'S' and f.name in ('polyseed_crypt', 'polyseed_free')))
        mut = sorted(f.name for f in P.defined.values() if not f.local and any(p['ty'] == '%' + DATA_STRUCT + '*' and not (f.d.get('param_const') or [False] * 9)[n] for n, p in enumerate(f.params)))
        allowed = {'polyseed_crypt', 'polyseed_free', 'polyseed_poly_to_data', 'polyseed_data_load'}
        rep.check(set(mut) <= allowed, 'functions taking a mutable seed: %s' % mut, 'include/polyseed.h', 'mutable seed parameter in %s' % sorted(set(mut) - allowed),
                  sample=mut, key='CONST-1|mutators')


def byte_buffer_alignment(ctx, rep, cfgs=None):
    """ALIGN-1: byte buffers are accessed bytewise"""
    for cfg in cfgs or ['NsS']:
        P = ctx.prog(cfg); pts = P.points_to()
        if cfg not in rep.configs: rep.configs.append(cfg)
        rep.rule('ALIGN-1', 'caller-supplied byte buffers (serialized seed, phrase, password, key and phrase outputs: every `uint8_t*` / `char*` parameter of the public API) carry no '
                 'alignment guarantee: every load / store that may target one of them (points-to) and is wider than one byte must be declared align 1 by the compiler - i.e. it is a '
                 'memcpy-style access, not a dereference of a pointer cast to a wider type, which is undefined behaviour at odd addresses and depends on the host\'s byte order')
        bufs = set()
        for f in P.defined.values():
            if f.local or f.name not in PUBLIC_API_NAMES: continue
            for n, p_ in enumerate(f.params):
                if p_['ty'] == 'i8*': bufs |= {('ext', f.name, n), ('extdeep', f.name, n)}
        rep.instances(len(bufs) // 2, 5, 'byte-buffer parameters of the public API')
        n = 0
        for f in P.defined.values():
            for i in f.all_insts():
                if i.op not in ('load', 'store') or (i.d.get('size') or 1) <= 1: continue
                addr = i.ops[0] if i.op == 'load' else i.ops[1]
                hit = [o for o in pts.of(f, addr) if o in bufs]
                if not hit: continue
                n += 1
                rep.check((i.d.get('align') or 1) == 1, '%d-byte %s at %s into a caller\'s byte buffer is alignment-free' % (i.d['size'], i.op, i.loc), i.loc,
                          '%s: %d-byte %s through a cast of a byte pointer (align %s)' % (base_name(f.name), i.d['size'], i.op, i.d.get('align')), detail={'object': str(hit[0]), 'align': i.d.get('align')},
                          key='ALIGN-1|%s|%s' % (base_name(f.name), i.loc.split(':')[-1]))
        if not n: rep.ok('no multi-byte access to a caller byte buffer at all (all accesses are bytewise or through memcpy / memset / memcmp)', {'config': cfg})


def normaliser_buffers(ctx, rep):
    for cfg in (ctx.configs('path') if ctx.tier == 'thorough' else ['NsS']):
        P = ctx.prog(cfg); pts = P.points_to()
        if cfg not in rep.configs: rep.configs.append(cfg)
        T = ctx.tables(); S = T.str_size()
        rep.rule('BUF-1', 'every buffer handed to a normaliser as its output (dep:u8_nfc, dep:u8_nfkd, utf8_nfkd_lazy) and the buffer the unguarded writer '
                 'fills is a whole polyseed_str from its first byte: the pointer has constant offset 0 from a local of exactly sizeof(polyseed_str) bytes, or '
                 'is the caller\'s str_out / a parameter forwarded unchanged; the ASCII fast path of utf8_nfkd_lazy copies up to exactly '
                 'sizeof(polyseed_str)-1 bytes, which is not below the longest phrase the library can produce')
        n = 0
        for f in P.defined.values():
            for i, t in P.calls(f):
                outarg = None
                if t in (('dep', 'u8_nfc'), ('dep', 'u8_nfkd')): outarg = 1
                elif t[0] == 'direct' and P.role_fn(t[1], 'lazy'): outarg = P.role_fn(t[1], 'lazy').args['out']
                if outarg is None: continue
                n += 1
                from .ir import strip_casts as sc0_
                from .rules_cmp import vk as vk_
                rb_, off = sc0_(f, i.ops[outarg])        # (follows a pointer parked in a local context struct to the value stored there)
                base = vk_(rb_)
                ok = off is not None and off >= 0 and base is not None
                if ok and base[0] == 'i':
                    a = f.insts[base[1]]
                    ok = a.op == 'alloca' and off + S <= a.d['alloc_size'] and (off == 0 and a.d['alloc_size'] == S or a.d['alloc_kind'] == 'struct')
                elif ok and base[0] == 'a':
                    ok = off == 0   # forwarded parameter: checked at the callers
                if not ok:
                    # a pointer parked in a context struct: decided by points-to - the value can only be the base address of whole polyseed_str locals (or a caller's buffer)
                    from .ir import strip_casts as sc_
                    r_, o_ = sc_(f, i.ops[outarg])
                    if o_ == 0 and r_['k'] == 'i' and f.insts[r_['id']].op == 'load' and pts.is_base(f, r_):
                        objs_ = pts.of(f, r_)
                        def whole(o):
                            if o[0] == 'alloca':
                                a_ = P.defined[o[1]].insts[o[2]]
                                return a_.d['alloc_size'] == S
                            return o[0] == 'ext'
                        ok = bool(objs_) and all(whole(o) for o in objs_)
                rep.check(ok, 'normaliser output at %s is a whole polyseed_str (%d bytes) from offset 0' % (i.loc, S), i.loc,
                          '%s: normaliser writes into a buffer that is not a whole polyseed_str' % base_name(f.name), detail={'offset': off, 'base': str(base)},
                          sample={'site': i.loc, 'function': f.name}, key='BUF-1|%s|%s' % (base_name(f.name), t[1]))
        rep.instances(n, 3, 'normaliser call sites')
        # the fast-path bound
        worst = max(16 * max(len(w) for w in L.words) + 15 * len(L.separator) for L in T.ordered())
        from .rules_bounds import must_facts as mf
        from .rules_cmp import ensure_semantics
        decided = ensure_semantics(ctx, cfg, P)
        for g in [r_.fn for r_ in P.roles('lazy')]:
            if g.name in decided:
                rep.ok('%s: the fast-path copy bound sizeof(polyseed_str)-1 is part of LAZY-1; longest library phrase %d <= %d' % (base_name(g.name), worst, S - 1))
                rep.check(worst <= S - 1, 'longest library phrase (%d) fits the fast path of the lazy normaliser (%d)' % (worst, S - 1), '%s:%s' % ((g.file or '').replace('/repo/', ''), g.line), base_name(g.name), key='BUF-1|fastpath-bound')
                continue
            IN, EDGE = must_facts(g, order_facts)
            Ks = set()
            for i in g.all_insts():
                if i.op == 'getelementptr' and i.d['var_steps']:
                    idx = strip_ext(g, i.d['var_steps'][0]['idx'])
                    for f_ in (IN.get(i.bb) or set()):
                        if f_[0] == 'lt' and idx['k'] == 'i' and f_[1] == ('i', idx['id']): Ks.add(f_[2])
                        if f_[0] == 'ne' and idx['k'] == 'i' and f_[1] == ('i', idx['id']):
                            inv = counter_invariant(g, g.insts[idx['id']], IN, EDGE)
                            if inv and inv[0] == 'weak' and inv[1] == f_[2]: Ks.add(f_[2])
            K = max(Ks) if Ks else None
            rep.check(K is not None and worst <= K <= S - 1, 'fast-path copy bound %s: longest library phrase (%d) <= bound <= sizeof(polyseed_str)-1 (%d)' % (K, worst, S - 1),
                      '%s:%s' % ((g.file or '').replace('/repo/', ''), g.line), '%s copy bound' % base_name(g.name), detail={'bound': K, 'worst_phrase': worst, 'buffer': S},
                      sample={'bound': K, 'worst_phrase': worst}, key='BUF-1|fastpath-bound')


def no_abort(ctx, rep):
    for cfg in [c for c in ctx.configs('effect') if c[0] == 'N']:
        P = ctx.prog(cfg)
        if cfg not in rep.configs: rep.configs.append(cfg)
        rep.rule('ABORT-1', 'release configuration: no call to a noreturn function and no unreachable terminator anywhere in the library')
        n = 0
        for f in P.defined.values():
            for i in f.all_insts():
                if i.op == 'unreachable' or (i.op == 'call' and i.d.get('noreturn')):
                    rep.fail('no abort path in the release build', i.loc, f.name)
                n += 1
        rep.rules[rep._cur]['instances'] += n
        rep.ok('%d instructions scanned in %s' % (n, cfg))


def helper_contracts(ctx, rep):
    """structural contracts of the small string helpers that the exit summaries replace by summaries (so their bodies are checked here)"""
    from .rules_cmp import lazy_normaliser_semantics
    lazy_normaliser_semantics(ctx, rep)
    for cfg in (ctx.configs('path') if ctx.tier == 'thorough' else ['NsS']):
        P = ctx.prog(cfg)
        if cfg not in rep.configs: rep.configs.append(cfg)
        from .rules_cmp import nonnul_dataflow, writer_functions, ensure_semantics
        from . import e7
        decided = ensure_semantics(ctx, cfg, P)
        rep.rule('WRITER-1', 'semantics of the phrase writer (found by role: the library function polyseed_encode\'s side calls with a cursor and a word / separator string of a language '
                 'table), by abstract interpretation over the string abstraction with exact positions, for all source strings of up to %d bytes (every word and separator of the tables is '
                 'shorter): bytes 0..L-1 of the source are copied in order to the L bytes the cursor points at, the cursor advances by exactly L, no terminator and nothing else is '
                 'written, nothing is read past the source\'s terminator' % e7.WRITER_MAXLEN)
        wfs = writer_functions(P)
        for g, cur_, src_ in wfs:
            r = e7.writer(ctx, cfg, P, g, cur_, src_)
            w = '%s:%s' % ((g.file or '').replace('/repo/', ''), g.line); cons = base_name(g.name)
            if r.status == 'found':
                rep.fail('%s: %s' % (cons, r.exc.detail), r.exc.loc if r.exc.loc != '?' else w, '%s: %s' % (cons, r.exc.kind), detail={'kind': r.exc.kind, 'detail': r.exc.detail}, key='WRITER-1|%s|%s' % (cons, r.exc.kind))
            elif r.status == 'imprecise':
                rep.notes.append('WRITER-1 not decided for %s: %s' % (cons, r.why)); rep.ok('%s: outside the string abstraction (%s) - the structural rule HELP-1 applies' % (cons, r.why[:80]))
            else:
                rep.check(r.status == 'ok', '%s copies exactly the source up to its NUL and advances the cursor by its length (%d abstract states)' % (cons, r.ex.nstates), w,
                          '%s deviates from "append the source string"' % cons, detail={'disagreements': len(r.bad), 'first': r.bad[:2]}, sample={'function': cons, 'abstract_states': r.ex.nstates}, key='WRITER-1|%s' % cons)
        rep.rule('HELP-1', 'fallback where WRITER-1 is not decided - the writer copies the source up to, not including, its NUL: one loop whose only exit is the NUL test of the source byte at the '
                 'current position; each iteration stores that same byte at the corresponding destination position and advances by one (pointer-walking '
                 'or index form); the caller\'s cursor receives the final destination position')
        for g, cur_, src_a in wfs:
            if g.name in decided: continue
            w = '%s:%s' % ((g.file or '').replace('/repo/', ''), g.line)
            src = cursor_family(g, src_a)
            loopblocks = set()
            for b_ in range(len(g.blocks)):
                seen = set(); st_ = list(g.succs[b_])
                while st_:
                    n_ = st_.pop()
                    if n_ in seen: continue
                    seen.add(n_); st_.extend(g.succs[n_])
                if b_ in seen: loopblocks.add(b_)
            def src_pos(ld):
                """(cursor value key, index value key) of a byte load from the source string"""
                a_ = inst_of(g, ld.ops[0])
                if a_ is not None and a_.op == 'getelementptr' and a_.d['var_steps']:
                    base, off = addr_base(g, a_.ops[0])
                    return (base if base in src else None, vk(strip_ext(g, a_.d['var_steps'][0]['idx'])), off + a_.d['const_off'])
                base, off = addr_base(g, ld.ops[0])
                return (base if base in src else None, None, off)
            conds = []
            for b_ in loopblocks:
                t = g.blocks[b_][-1]
                if t.op == 'br' and len(t.ops) == 3 and any(s_ not in loopblocks for s_ in g.succs[b_]):
                    conds.append((b_, cond_class(g, t.ops[0])))
            ok = len(conds) == 1 and conds[0][1] is not None and conds[0][1][0] == 'nul'
            pos0 = src_pos(conds[0][1][1]) if ok else None
            ok = ok and pos0[0] is not None and pos0[2] == 0
            rep.check(ok, 'the copy loop ends only at the source\'s NUL', w, '%s loop exits' % base_name(g.name), detail=[(b_, str(c)[:60]) for b_, c in conds],
                      sample={'function': g.name, 'loop_exits': len(conds)}, key='HELP-1|exit')
            stores = [i for i in g.all_insts() if i.op == 'store' and i.bb in loopblocks and i.d['size'] == 1]
            ok2 = ok and len(stores) == 1
            if ok2:
                s_ = stores[0]
                ld = inst_of(g, s_.ops[0])
                ok2 = ld is not None and ld.op == 'load' and src_pos(ld) == pos0
                # destination position advances in step with the source: same index value, or a pointer phi advanced by one
                da = inst_of(g, s_.ops[1])
                if pos0[1] is not None:
                    ok2 = ok2 and da is not None and da.op == 'getelementptr' and da.d['var_steps'] and vk(strip_ext(g, da.d['var_steps'][0]['idx'])) == pos0[1]
                    idxphi = g.insts[pos0[1][1]] if pos0[1][0] == 'i' else None
                    ok2 = ok2 and idxphi is not None and idxphi.op == 'phi' and any(
                        inst_of(g, v) is not None and inst_of(g, v).op == 'add' and vk(inst_of(g, v).ops[0]) == ('i', idxphi.id) and const_of(inst_of(g, v).ops[1]) == 1
                        for v, pb in idxphi.d['incoming'] if pb in loopblocks)
                else:
                    phis = [i for i in g.all_insts() if i.op == 'phi' and i.bb in loopblocks and i.d['ty'] == 'i8*']
                    for ph in phis:
                        for v, pb in ph.d['incoming']:
                            if pb in loopblocks:
                                bb_, o_ = addr_base(g, v)
                                ok2 = ok2 and bb_ == ('i', ph.id) and o_ == 1
                    ok2 = ok2 and len(phis) == 2
            rep.check(ok2, 'each iteration copies the byte under the source position to the destination position and advances both by one', w, '%s loop body' % base_name(g.name), key='HELP-1|body')
        rep.rule('HELP-2', 'fallback where LAZY-1 is not decided - the lazy normaliser front end returns either the value returned by dep:u8_nfkd (non-ASCII input) or the number '
                 'of bytes it copied, which is the index at which it stores the terminator')
        for g in [r_.fn for r_ in P.roles('lazy')]:
            if g.name in decided: continue
            w = '%s:%s' % ((g.file or '').replace('/repo/', ''), g.line)
            from .paths import feasible_walks
            term_idx = set()
            for i in g.all_insts():
                if i.op == 'store' and i.d['size'] == 1 and const_of(i.ops[0]) == 0:
                    a = inst_of(g, i.ops[1])
                    if a is not None and a.op == 'getelementptr' and a.d['var_steps']:
                        term_idx.add(vk(strip_ext(g, a.d['var_steps'][0]['idx'])))
            def sources(v, depth=0):
                v = strip_ext(g, v)
                i = inst_of(g, v)
                if i is not None and i.op == 'phi' and depth < 6:
                    carried = any(inst_of(g, x) is not None and inst_of(g, x).op in ('add', 'getelementptr') and vk(inst_of(g, x).ops[0]) == ('i', i.id) for x, _ in i.d['incoming'])
                    if not carried:
                        out = []
                        for x, _ in i.d['incoming']: out += sources(x, depth + 1)
                        return out
                return [v]
            kinds = set()
            for r_ in [i for i in g.all_insts() if i.op == 'ret']:
                for r in sources(r_.ops[0]):
                    if r['k'] == 'i' and g.insts[r['id']].op == 'call' and P.call_target(g.insts[r['id']]) == ('dep', 'u8_nfkd'): kinds.add('nfkd')
                    elif vk(r) in term_idx: kinds.add('count')
                    else: kinds.add('other:%s' % (r,))
            rep.check(kinds <= {'nfkd', 'count'} and 'nfkd' in kinds and 'count' in kinds, 'return value is the normaliser\'s result or the copy count', w, base_name(g.name),
                      detail=sorted(kinds), sample=sorted(kinds), key='HELP-2|ret')
        rep.rule('HELP-3', 'lang_search gives up (negative result) only after the search itself: every return of a negative constant lies after the bsearch '
                 'call or after the scan loop ran off its bound; no early rejection of a token')
        for g in P.fns('lang_search'):
            w = '%s:%s' % ((g.file or '').replace('/repo/', ''), g.line)
            from .paths import structural_walks
            n = 0
            for wk in structural_walks(P, g, unroll=1):
                rc = wk.ret_class()
                if rc and rc[0] == 'const' and rc[1] >> 31:
                    n += 1
                    inloop = set()
                    for b_ in range(len(g.blocks)):
                        seen = set(); st_ = list(g.succs[b_])
                        while st_:
                            n_ = st_.pop()
                            if n_ in seen: continue
                            seen.add(n_); st_.extend(g.succs[n_])
                        if b_ in seen: inloop.add(b_)
                    searched = any(i.op == 'call' and (P.call_target(i) == ('direct', 'bsearch') or P.call_target(i)[0] == 'indirect' or
                                                       (P.call_target(i)[0] == 'direct' and P.call_target(i)[1] in P.defined)) for i in wk.events) \
                        or any(b_ in inloop for b_ in wk.path)          # ... or the path went through the scan loop
                    rep.check(searched, 'negative result on path %s comes after a search step' % wk.path, g.blocks[wk.path[-1]][-1].loc, '%s: token rejected without searching' % base_name(g.name),
                              key='HELP-3|early-reject')
            rep.rules[rep._cur]['instances'] += n      # a dispatcher that delegates both searches has no such path itself
        rep.rule('HELP-5', 'dep:u8_nfc is called from polyseed_encode itself or from a helper in which the call is unconditional (it lies on every path from '
                 'the helper\'s entry to its return): composition cannot be skipped depending on the phrase bytes')
        n5 = 0
        for g in P.defined.values():
            for i, t in P.calls(g):
                if t != ('dep', 'u8_nfc'): continue
                n5 += 1
                ok = base_name(g.name) == 'polyseed_encode' or g.reach_ret_avoiding(g.blocks[0][0], {i.id}, from_after=False) is None
                rep.check(ok, 'dep:u8_nfc call at %s is unconditional within %s' % (i.loc, base_name(g.name)), i.loc, '%s: composition is skipped on some paths' % base_name(g.name),
                          key='HELP-5|%s' % base_name(g.name))
        rep.instances(n5, 1, 'dep:u8_nfc call sites')
        rep.rule('HELP-4', 'the default clock returns the value of time(NULL) unchanged (no truncation)')
        for g in P.defined.values():
            calls = [i for i, t in P.calls(g) if t == ('direct', 'time')]
            if not calls: continue
            w = '%s:%s' % ((g.file or '').replace('/repo/', ''), g.line)
            rets = [i for i in g.all_insts() if i.op == 'ret']
            ok = len(rets) == 1 and len(calls) == 1 and len(g.blocks) == 1
            if ok:
                v = rets[0].ops[0]
                while v['k'] == 'i' and g.insts[v['id']].op in ('sext', 'zext', 'bitcast'): v = g.insts[v['id']].ops[0]
                ok = v == {'k': 'i', 'id': calls[0].id}
            rep.check(ok, 'default clock = time(NULL) passed through', w, base_name(g.name), key='HELP-4|clock')
