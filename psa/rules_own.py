"""Ownership typestate of blocks from the injected allocator (C15), release function shape (C15/C16)."""
from .frontend import AnalysisBroken
from .paths import Walk, feasible_walks
from .ir import base_name, DATA_STRUCT, strip_casts


def param_summaries(P):
    """per (function, argno): does the pointer parameter reach dep:free ('releases') or get stored as a value /
    returned ('captures')?  Fixpoint over direct calls."""
    rel = set(); cap = set(); retd = set()       # retd: the function may return a pointer derived from that parameter (its caller then holds a derived pointer: not a capture)
    changed = True
    while changed:
        changed = False
        for f in P.defined.values():
            for n, p in enumerate(f.params):
                if not p['ty'].endswith('*'):
                    continue
                # values derived from the parameter (flow-insensitive through casts/GEPs/phis)
                der = set([('a', n)])
                grow = True
                while grow:
                    grow = False
                    for i in f.all_insts():
                        if i.op in ('bitcast', 'getelementptr', 'phi', 'select') and ('i', i.id) not in der:
                            srcs = [v for v, _ in i.d['incoming']] if i.op == 'phi' else (i.ops[1:] if i.op == 'select' else i.ops[:1])
                            for v in srcs:
                                k = ('i', v['id']) if v['k'] == 'i' else (('a', v['n']) if v['k'] == 'a' else None)
                                if k in der:
                                    der.add(('i', i.id)); grow = True
                        elif i.op == 'call' and ('i', i.id) not in der and not P.is_dbg(i):
                            t_ = P.call_target(i)
                            if t_[0] == 'direct' and any((t_[1], k_) in retd and ((a_['k'] == 'i' and ('i', a_['id']) in der) or (a_['k'] == 'a' and ('a', a_['n']) in der)) for k_, a_ in enumerate(i.ops)):
                                der.add(('i', i.id)); grow = True
                def isder(v):
                    return (v['k'] == 'i' and ('i', v['id']) in der) or (v['k'] == 'a' and ('a', v['n']) in der)
                for i in f.all_insts():
                    if i.op == 'store' and isder(i.ops[0]):
                        r_, _ = strip_casts(f, i.ops[1])
                        if r_['k'] == 'i' and f.insts[r_['id']].op == 'alloca':
                            continue      # parked in a local of this function (a context struct / pointer array): dies with the frame (ESC-1 covers locals that escape; OWN-4 covers static / heap storage)
                        if (f.name, n) not in cap: cap.add((f.name, n)); changed = True
                    elif i.op == 'ret' and i.ops and isder(i.ops[0]):
                        if f.local:
                            if (f.name, n) not in retd: retd.add((f.name, n)); changed = True
                        elif (f.name, n) not in cap: cap.add((f.name, n)); changed = True
                    elif i.op == 'call' and not P.is_dbg(i):
                        t = P.call_target(i)
                        for k, a in enumerate(i.ops):
                            if not isder(a): continue
                            if t[0] == 'dep' and t[1] == 'free':
                                if (f.name, n) not in rel: rel.add((f.name, n)); changed = True
                            elif t[0] == 'direct' and t[1] in P.defined:
                                if (t[1], k) in rel and (f.name, n) not in rel: rel.add((f.name, n)); changed = True
                                if (t[1], k) in cap and (f.name, n) not in cap: cap.add((f.name, n)); changed = True
                            elif t[0] == 'direct' and t[1] == 'free':
                                if (f.name, n) not in rel: rel.add((f.name, n)); changed = True
    return rel, cap


def alloc_wrappers(P, size):
    """functions that only forward the result of dep:alloc(sizeof(seed)) to their caller (allocator wrappers)"""
    out = set()
    for f in P.defined.values():
        if not f.d['ret_ty'].endswith('*'): continue
        al = [i for i, t in P.calls(f) if t == ('dep', 'alloc')]
        if len(al) != 1 or f.has_loop(): continue
        A = al[0]
        ok = const_of_(A.ops[0]) == size
        for w in feasible_walks(P, f):
            rv = w.ret_value()
            if A in w.events:
                if rv is None or w.derived_from(rv, A.id) != 0: ok = False
                for i in w.events:
                    if i is A or i.op in ('bitcast', 'ret'): continue
                    if any(w.derived_from(v, A.id) is not None for v in i.ops): ok = False
            else:
                if rv is None or w.val(rv) != 0: ok = False
        if ok: out.add(f.name)
    return out


def const_of_(v):
    return v['v'] if v['k'] == 'c' else None


def is_alloc_event(P, i, wrappers):
    if i.op != 'call': return False
    t = P.call_target(i)
    return t == ('dep', 'alloc') or (t[0] == 'direct' and t[1] in wrappers)


def ownership(ctx, rep, cfgs=None):
    for cfg in cfgs or ctx.configs('path'):
        P = ctx.prog(cfg)
        if cfg not in rep.configs: rep.configs.append(cfg)
        status = P.enum('polyseed_status')
        OK = status['POLYSEED_OK']; EMEM = status['POLYSEED_ERR_MEMORY']
        size = P.structs[DATA_STRUCT]['size']
        rel, cap = param_summaries(P)
        wrappers = alloc_wrappers(P, size)

        # ---- who may allocate / release
        rep.rule('OWN-1', 'the only allocation is a call through dependency field alloc, the only release a call through '
                 'field free made from exactly one function; no direct malloc/calloc/realloc/free/strdup/alloca call')
        allocs = []; frees = []
        for f in P.defined.values():
            for i, t in P.calls(f):
                if t == ('dep', 'alloc'): allocs.append((f, i))
                if t == ('dep', 'free'): frees.append((f, i))
                if t[0] == 'direct' and t[1] in ('malloc', 'calloc', 'realloc', 'free', 'strdup', 'strndup', 'aligned_alloc', 'posix_memalign'):
                    rep.fail('no direct libc allocation call', i.loc, '%s calls %s' % (f.name, t[1]))
            for i in f.all_insts():
                if i.op == 'alloca' and i.ops and i.ops[0]['k'] != 'c':
                    rep.fail('no variable-length stack allocation', i.loc, f.name)
        rep.instances(len(allocs), 1, 'dep:alloc call sites')
        rep.instances(len(frees), 1, 'dep:free call sites')
        free_fns = sorted(set(f.name for f, _ in frees))
        rep.check(len(free_fns) == 1, 'exactly one function calls the injected free', frees[0][1].loc, str(free_fns),
                  sample={'release_function': free_fns, 'constructors': sorted(set(f.name for f, _ in allocs))})
        relfn = free_fns[0]

        rep.rule('OWN-4', 'no pointer to a seed block is ever stored in static storage or inside another heap block (points-to, whole program): a seed is reachable only through the '
                 'pointer published in the caller\'s output parameter, so nothing but the caller can release it or keep it alive')
        pts = P.points_to(); nk = 0
        for node, objs in list(pts.pts.items()):
            if node[0] != 'content': continue
            o = node[1]
            if o[0] == 'heap' or (o[0] == 'global' and not P.globals.get(o[1], {}).get('constant')):
                nk += 1
                held = sorted(x for x in objs if x[0] == 'heap')
                rep.check(not held, '%s holds no seed pointer' % (o,), allocs[0][1].loc if allocs else 'src/', '%s may hold a pointer to the block allocated in %s' % (o[1] if o[0] == 'global' else 'a heap block', held[0][1] if held else ''),
                          detail={'object': str(o), 'holds': [str(x) for x in held[:3]]}, key='OWN-4|%s' % (o[1],))
        rep.info['own4_objects'] = nk

        # ---- behaviour of the release function (bitflow: helpers are followed, wrappers resolved)
        rep.rule('OWN-2', 'release function, interpreted abstractly: with a NULL argument no injected function is called at all; with a block it calls '
                 'dep:memzero(block+0, sizeof(seed)) - so the block is all-zero - and then dep:free(block+0), each exactly once, in that order, whether the '
                 'calls are made directly or through helpers')
        from .bitflow import Interp, State, Ptr, BV
        from .harness import Deps, symbolic_seed
        from .e7 import role_const
        subjects = [(P.fn('polyseed_free'), True), (P.fn('polyseed_free'), False)]
        if base_name(relfn) != 'polyseed_free': subjects.append((P.fn(relfn), False))      # an internal release helper is only ever handed an owned block (OWN-3)
        for F, arg_is_null in subjects:
            where = '%s:%s' % ((F.file or '').replace('/repo/', ''), F.line); relfn_ = F.name
            summ = {}; I = Interp(P, summaries=summ); Deps(I).install(summ)
            st = State()
            if arg_is_null: arg = BV.const(0, 64)
            else: arg, _ = symbolic_seed(I, st, name='block', canonical=False)
            pidx = next((n_ for n_, p_ in enumerate(F.params) if p_['ty'].endswith('*')), 0)
            args_ = []
            for n_, p_ in enumerate(F.params):
                if n_ == pidx: args_.append(arg)
                else:
                    c_ = role_const(P, F, n_)
                    args_.append(BV.const(c_ if c_ is not None else 0, p_['bits'] or 64))
            outs = I.run(F, args_, st)
            rep.instances(len(outs), 1, 'outcomes of the release function')
            for o in outs:
                ev = [t for t in o.state.trace if t[0] in ('memzero', 'memzero-symbolic-length', 'free', 'alloc', 'randbytes', 'pbkdf2', 'time', 'u8_nfc', 'u8_nfkd')]
                if arg_is_null:
                    rep.check(not ev, 'NULL argument: no injected function is called', where, relfn_, detail=[str(e)[:80] for e in ev], sample='NULL -> no calls')
                else:
                    ok = len(ev) == 2 and ev[0][0] == 'memzero' and ev[0][1] == repr(Ptr('block', 0)) and ev[0][2] == size and ev[1][0] == 'free' and ev[1][1] == repr(Ptr('block', 0))
                    ok = ok and all(c == [0] * 8 for c in o.state.mem.objs['block'])
                    rep.check(ok, 'block: dep:memzero(block, %d) then dep:free(block); the block is all-zero when released' % size, where, relfn_,
                              detail=[str(e)[:100] for e in ev], sample=[e[0] for e in ev], key='OWN-2|%s' % base_name(relfn_))

        # ---- typestate per constructor path
        rep.rule('OWN-3', 'on every path of every function that allocates: at most one allocation of sizeof(seed) bytes; the '
                 'result is compared with NULL before any use; NULL outcome -> return POLYSEED_ERR_MEMORY with no use, no '
                 'release, no output; non-NULL outcome -> exactly one of (a) store to the caller\'s output pointer and return '
                 'POLYSEED_OK or (b) release through the release function and return a non-OK status; the block pointer is '
                 'stored nowhere else and passed only to callees that neither release nor capture it')
        ctors = sorted(set(f.name for f, _ in allocs) - wrappers)
        for f in P.defined.values():
            if f.name not in wrappers and any(is_alloc_event(P, i, wrappers) for i in f.all_insts()) and f.name not in ctors:
                ctors.append(f.name)
        ctors = sorted(ctors)
        rep.info['allocator_wrappers'] = sorted(wrappers)
        npaths = 0
        for cn in ctors:
            f = P.defined[cn]
            from .paths import structural_walks
            # loops at the constructor's own level (e.g. an open-coded zeroing loop): every back edge once, no feasibility pruning -
            # ownership events do not depend on trip counts
            walks = structural_walks(P, f, unroll=1) if f.has_loop() else feasible_walks(P, f)
            for w in walks:
                npaths += 1
                _typestate(P, f, w, rep, rel, cap, relfn, size, OK, EMEM, wrappers)
        rep.instances(len(ctors), 2, 'allocating functions')
        if npaths < 2 * len(ctors):
            raise AnalysisBroken('fewer than two feasible paths per allocating function: path enumeration is vacuous')
        rep.info.setdefault('paths', {})[cfg] = npaths
        rep.info['constructors'] = ctors


def _typestate(P, f, w, rep, rel, cap, relfn, size, OK, EMEM, wrappers=()):
    evs = w.events
    allocs = [i for i in evs if is_alloc_event(P, i, wrappers)]
    pathdesc = {'function': f.name, 'blocks': w.path, 'trace': w.describe()}
    end = evs[-1]
    if len(allocs) > 1:
        rep.fail('at most one allocation per path', allocs[1].loc, '%s path %s' % (f.name, w.path), detail=pathdesc)
        return
    rc = w.ret_class()
    if not allocs:
        # no block on this path: nothing may be released
        for i in evs:
            if i.op == 'call':
                t = P.call_target(i)
                if t == ('direct', relfn) or t == ('dep', 'free'):
                    rep.fail('no release on a path without allocation', i.loc, '%s path %s' % (f.name, w.path), detail=pathdesc)
                    return
        rep.ok('%s path %s: no allocation, no release' % (f.name, w.path))
        return
    A = allocs[0]
    if P.call_target(A) == ('dep', 'alloc') and w.val(A.ops[0]) != size:
        rep.fail('allocation requests sizeof(polyseed_data)=%d bytes' % size, A.loc, f.name, detail=pathdesc)
        return
    state = 'maybe'; released = 0; transferred = 0
    start = evs.index(A)
    key = 'OWN-3|%s' % base_name(f.name)
    for i in evs[start + 1:]:
        uses = [k for k, v in enumerate(i.ops) if w.derived_from(v, A.id) is not None]
        if i.op == 'call' and 'callee_val' in i.d and w.derived_from(i.d['callee_val'], A.id) is not None:
            uses.append(-1)
        if i.op in ('bitcast', 'getelementptr', 'icmp'):
            continue
        if i.op == 'store' and 0 in uses and 1 not in uses:
            r_, _ = strip_casts(f, i.ops[1])
            if r_['k'] == 'i' and f.insts[r_['id']].op == 'alloca':
                continue          # the pointer value is parked in a local (no dereference); uses through that local are followed by store-to-load forwarding
        if i.op == 'br' and len(i.ops) == 3:
            # outcome of a NULL test on the block?
            for (k, r, c) in w.facts:
                pass
            continue
        if not uses:
            continue
        # classify state from branch facts learned so far
        st = _null_state(w, A, i)
        if st == 'maybe':
            rep.fail('block used before its NULL test', i.loc, '%s path %s' % (f.name, w.path), detail=pathdesc, key=key + '|use-before-null-test')
            return
        if st == 'null':
            rep.fail('NULL block is used/released/published on the allocation-failure path', i.loc,
                     '%s path %s' % (f.name, w.path), detail=pathdesc, key=key + '|use-of-null')
            return
        if released or transferred:
            what = 'released' if released else 'handed to the caller'
            if i.op == 'call' and (P.call_target(i) == ('direct', relfn) or P.call_target(i) == ('dep', 'free')):
                rep.fail('block released after it was already %s (double free / free of a returned seed)' % what, i.loc,
                         '%s path %s' % (f.name, w.path), detail=pathdesc, key=key + '|double-release')
                return
            if released:
                rep.fail('block used after release', i.loc, '%s path %s' % (f.name, w.path), detail=pathdesc, key=key + '|use-after-release')
                return
        if i.op == 'store':
            if 0 in uses:          # the pointer itself is stored
                tgt = w.derived_from_arg(i.ops[1])
                if tgt is not None and not f.local or (tgt is not None):
                    transferred += 1
                else:
                    rep.fail('block pointer stored somewhere other than the caller\'s output parameter', i.loc,
                             '%s path %s' % (f.name, w.path), detail=pathdesc, key=key + '|escape')
                    return
        elif i.op == 'call':
            t = P.call_target(i)
            if t == ('direct', relfn) or t == ('dep', 'free'):
                off = w.derived_from(i.ops[0], A.id)
                if off != 0:
                    rep.fail('release of an interior pointer', i.loc, f.name, detail=pathdesc); return
                released += 1
            elif t[0] == 'direct' and t[1] in P.defined:
                for k in uses:
                    if (t[1], k) in rel:
                        released += 1
                    if (t[1], k) in cap:
                        rep.fail('callee %s captures the block pointer' % t[1], i.loc, f.name, detail=pathdesc, key=key + '|capture')
                        return
            elif t[0] == 'indirect':
                rep.fail('block passed to an unresolved indirect call', i.loc, f.name, detail=pathdesc); return
        elif i.op == 'ret':
            rep.fail('constructor returns the block pointer itself (API returns a status)', i.loc, f.name, detail=pathdesc)
            return
    st = _null_state(w, A, end)
    where = end.loc
    cons = '%s path %s' % (f.name, w.path)
    if st == 'maybe':
        rep.fail('allocation result is tested against NULL', A.loc, cons, detail=pathdesc, key=key + '|no-null-test'); return
    if st == 'null':
        ok = rc == ('const', EMEM)
        rep.check(ok, 'allocation-failure path returns POLYSEED_ERR_MEMORY', where, cons, detail=pathdesc, sample=pathdesc,
                  key=key + '|oom-status')
        return
    if released > 1:
        rep.fail('block released more than once on one path (double free)', where, cons, detail=pathdesc, key=key + '|double-release'); return
    if released and transferred:
        rep.fail('block both released and handed to the caller', where, cons, detail=pathdesc, key=key + '|release-and-publish'); return
    if not released and not transferred:
        rep.fail('block neither released nor handed to the caller on this path: leak (status %s)' % (rc,), where, cons,
                 detail=pathdesc, key=key + '|leak')
        return
    if base_name(f.name) in ('polyseed_create', 'polyseed_load', 'polyseed_decode', 'polyseed_decode_explicit'):
        # which status accompanies publish / release is decided path-sensitively by the exit summaries of these four functions (CREATE, LOAD-EXITS, DEC-EXITS), which
        # every property running this rule also runs; the path walker cannot relate statuses computed by counters / conditional expressions to the branch taken
        rep.ok('%s: block %s exactly once (status: exit-summary rules)' % (cons, 'published' if transferred else 'released'))
        return
    if rc is not None and rc[0] == 'value':
        # status computed from flags / conditional expressions: its agreement with publish/release is decided by the exit summaries (CREATE,
        # DEC-EXITS, LOAD-EXITS), which every property running this rule also runs
        rep.ok('%s: block %s exactly once; status is a computed value (checked by the exit-summary rules)' % (cons, 'published' if transferred else 'released'))
        return
    if transferred:
        ok = rc == ('const', OK)
        rep.check(ok, 'a path that hands the block to the caller returns POLYSEED_OK (got %s)' % (rc,), where, cons,
                  detail=pathdesc, sample=pathdesc, key=key + '|publish-status')
    else:
        ok = rc is not None and ((rc[0] == 'const' and rc[1] != OK) or rc[0] == 'nonzero')
        rep.check(ok, 'a path that releases the block returns a non-OK status (got %s)' % (rc,), where, cons,
                  detail=pathdesc, sample=pathdesc, key=key + '|release-status')


def _null_state(w, A, upto):
    """what the branch facts taken before instruction `upto` say about the allocation result"""
    # facts are appended in path order; recompute by scanning events up to `upto`
    st = 'maybe'
    for i in w.events:
        if i is upto:
            break
        if i.op == 'br' and len(i.ops) == 3 and i.id in w.taken:
            c = w.resolve(i.ops[0])
            if c['k'] != 'i': continue
            ci = w.f.insts[c['id']]
            if ci.op == 'icmp' and ci.d['pred'] in ('eq', 'ne'):
                a, b = ci.ops
                if w.derived_from(a, A.id) == 0 and w.val(b) == 0 or w.derived_from(b, A.id) == 0 and w.val(a) == 0:
                    isnull = (ci.d['pred'] == 'eq') == bool(w.taken[i.id])
                    st = 'null' if isnull else 'owned'
    return st
