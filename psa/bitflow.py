"""E3: abstract interpretation of LLVM IR in a bit-provenance domain.

A bit is   0 | 1                      constant
           (mask, c)                  affine form over GF(2): XOR of the named input bits in `mask`, xor c
           ('T', depmask)             unknown, may depend on the inputs in depmask
           'U'                        uninitialised memory
A value is a BV (list of bits, LSB first), a Ptr (abstract object + 64-bit offset BV) or a Tag (opaque token made by a harness).
Control on concrete conditions is followed exactly (loops on counters unroll); control on a symbolic bit forks the state under
the linear constraint bit=0 / bit=1 (kept as a reduced GF(2) system used to normalise every operand); the two arms run to the exit
of the current function and are merged there bit-wise when an exact affine merge exists (otherwise both partitions are kept).
No solver: guards refine only through this linear system and a fixed list of structured conditions (x < 2^k, x == C, memcmp == 0).
"""
import copy
from .frontend import AnalysisBroken
from .ir import base_name

U = 'U'
ACCESS_LOG = set()     # (function, file:line) of concrete, bounds-checked accesses executed by any harness in this run


class Unmodelled(AnalysisBroken):
    pass


class UnsafeAccess(Unmodelled):
    """a memory-unsafe access on a path described by exact constraints over the inputs (a feasible execution), to an object whose size is the library's own (a global /
    local of the library) or the documented size of a public function's argument. Rules that know the context report it themselves; props.run reports any other as MEM-1."""
    def __init__(self, msg, where, detail):
        Unmodelled.__init__(self, msg); self.where = where; self.detail = detail


def T(deps=0):
    return ('T', deps)


def is_const(b):
    return b == 0 or b == 1


def is_form(b):
    return isinstance(b, tuple) and b[0] != 'T'


def is_top(b):
    return isinstance(b, tuple) and b[0] == 'T'


def deps(b):
    if is_const(b) or b == U: return 0
    if is_top(b): return b[1]
    return b[0]


def mk(mask, c):
    return c if mask == 0 else (mask, c)


def bxor(x, y):
    if x == U or y == U: return U
    if is_top(x) or is_top(y): return T(deps(x) | deps(y))
    mx, cx = (0, x) if is_const(x) else x
    my, cy = (0, y) if is_const(y) else y
    return mk(mx ^ my, cx ^ cy)


def bnot(x):
    return bxor(x, 1)


def band(x, y):
    if x == 0 or y == 0: return 0
    if x == U or y == U: return U
    if x == 1: return y
    if y == 1: return x
    if x == y: return x
    if is_form(x) and is_form(y) and x[0] == y[0] and x[1] != y[1]: return 0
    return T(deps(x) | deps(y))


def _mask_form(bits):
    """the single affine form g such that every non-constant bit of the word is g or its complement (at least two of them), else None"""
    g = None; n = 0
    for x in bits:
        if x == 0 or x == 1: continue
        if not is_form(x): return None
        base = (x[0], 0)
        if g is None: g = base
        elif g != base: return None
        n += 1
    return g if n >= 2 else None


def bor(x, y):
    if x == 1 or y == 1: return 1
    return bxor(bxor(x, y), band(x, y))


class BV:
    __slots__ = ('bits', 'zero_iff')

    def __init__(self, bits, zero_iff=None):
        self.bits = bits; self.zero_iff = zero_iff

    @property
    def w(self): return len(self.bits)

    @staticmethod
    def const(v, w):
        return BV([(v >> i) & 1 for i in range(w)])

    def concrete(self):
        v = 0
        for i, b in enumerate(self.bits):
            if b == 1: v |= 1 << i
            elif b != 0: return None
        return v

    def __repr__(self):
        c = self.concrete()
        return 'BV%d(%s)' % (self.w, c if c is not None else self.bits)


class Ptr:
    __slots__ = ('obj', 'off', 'parts')

    def __init__(self, obj, off, parts=None):
        self.obj = obj
        self.off = off if isinstance(off, BV) else BV.const(off & ((1 << 64) - 1), 64)
        self.parts = parts        # for hooked (opaque) objects: (const offset, [(index BV, stride)])

    def coff(self):
        c = self.off.concrete()
        if c is not None and c >> 63: c -= 1 << 64
        return c

    def __repr__(self):
        return 'Ptr(%s+%s)' % (self.obj, self.coff())

    def __eq__(self, o):
        return isinstance(o, Ptr) and o.obj == self.obj and o.off.bits == self.off.bits

    def __hash__(self):
        return hash((self.obj, tuple(self.off.bits)))


class Tag:
    """opaque token (e.g. 'the word pointer lang->words[<index bits>]'); only passed around, never computed on"""
    def __init__(self, kind, payload=None):
        self.kind = kind; self.payload = payload

    def __repr__(self):
        return 'Tag(%s,%r)' % (self.kind, self.payload)

    def __eq__(self, o):
        return isinstance(o, Tag) and (self.kind, repr(self.payload)) == (o.kind, repr(o.payload))


class Agg:
    """aggregate SSA value (struct passed / returned by value): index path -> value"""
    def __init__(self, fields=None):
        self.fields = dict(fields or {})

    def __repr__(self):
        return 'Agg(%r)' % self.fields

    def __eq__(self, o):
        return isinstance(o, Agg) and repr(self.fields) == repr(o.fields)


class Vars:
    def __init__(self):
        self.names = []; self.index = {}

    def bit(self, name):
        if name not in self.index:
            self.index[name] = len(self.names); self.names.append(name)
        return (1 << self.index[name], 0)

    def bv(self, name, w):
        return BV([self.bit('%s.%d' % (name, i)) for i in range(w)])

    def show_mask(self, m):
        out = []; i = 0
        while m:
            if m & 1: out.append(self.names[i])
            m >>= 1; i += 1
        return out

    def show(self, b):
        if is_const(b): return str(b)
        if b == U: return 'UNINIT'
        if is_top(b): return 'TOP{%s}' % ','.join(self.show_mask(b[1])[:8])
        return '^'.join(self.show_mask(b[0]) + (['1'] if b[1] else []))

    def show_bv(self, v):
        if isinstance(v, BV): return [self.show(b) for b in v.bits]
        return repr(v)


class Constraints:
    """reduced row-echelon GF(2) system: pivot var bit -> (mask, c) meaning XOR(mask) = c"""
    def __init__(self):
        self.rows = {}; self.pmask = 0; self.opaque = []

    def clone(self):
        c = Constraints(); c.rows = dict(self.rows); c.pmask = self.pmask; c.opaque = list(self.opaque); return c

    def reduce(self, b):
        if not is_form(b): return b
        m, c = b
        hit = m & self.pmask
        while hit:
            p = hit & -hit
            rm, rc = self.rows[p]
            m ^= rm; c ^= rc
            hit = m & self.pmask
        return mk(m, c)

    def add(self, form, val):
        """constrain form == val; returns False if contradictory"""
        f = self.reduce(bxor(form, val))     # f == 0
        if f == 0: return True
        if f == 1: return False
        if not is_form(f): return True       # TOP: no information
        m, c = f
        p = m & -m
        for q, (rm, rc) in list(self.rows.items()):
            if rm & p:
                self.rows[q] = (rm ^ m, rc ^ c)
        self.rows[p] = (m, c); self.pmask |= p
        return True


class Mem:
    """abstract objects: name -> list of byte cells; a byte cell is a list of 8 bits or ('ptr', Ptr, k) / ('tag', Tag, k).
    Copy-on-write: clones share the cell lists until one of them writes (use wcells() before mutating)."""
    def __init__(self):
        self.objs = {}; self.ro = set(); self.hooks = {}; self.owned = set()

    def clone(self):
        m = Mem(); m.objs = dict(self.objs); m.ro = self.ro; m.hooks = self.hooks
        self.owned = set()
        return m

    def new(self, name, size, fill=U):
        self.objs[name] = [[fill] * 8 if fill != 0 else [0] * 8 for _ in range(size)]
        self.owned.add(name)

    def wcells(self, name):
        if name not in self.owned:
            self.objs[name] = list(self.objs[name]); self.owned.add(name)
        return self.objs[name]

    def size(self, name):
        return len(self.objs[name])


class Fork(Exception):
    def __init__(self, form): self.form = form


class ForkValue(Exception):
    """partition on a widened boolean / `cond ? K : 0` value that is about to be used arithmetically"""
    def __init__(self, valref, zero_iff):
        self.valref = valref; self.zi = zero_iff


class ForkSelect(Exception):
    """partition on the (non-affine) condition of a select whose arms cannot be merged"""
    def __init__(self, cond): self.cond = cond


class State:
    def __init__(self, mem=None, cons=None):
        self.mem = mem or Mem(); self.cons = cons or Constraints()
        self.forced = {}         # (function, select inst id) -> 0/1: outcome forced by a partition on a select's condition
        self.trace = []          # summarised calls / events
        self.events = []         # uninit reads, bounds violations ...
        self.nalloca = 0

    def clone(self):
        s = State(self.mem.clone(), self.cons.clone())
        s.trace = list(self.trace); s.events = list(self.events); s.nalloca = self.nalloca; s.forced = dict(self.forced)
        return s


class Outcome:
    def __init__(self, state, ret):
        self.state = state; self.ret = ret


class Interp:
    def __init__(self, P, vars_=None, summaries=None, budget=4096, max_steps=400000):
        self.P = P; self.V = vars_ or Vars()
        self.summaries = summaries if summaries is not None else {}     # name or 'dep:x' -> callable(interp, state, args, inst) -> value
        self.budget = budget; self.steps = 0; self.max_steps = max_steps
        self.accesses = []       # (function, loc, obj, offset, size, kind) concrete accesses bounds-checked
        self.oob = []            # concrete out-of-bounds accesses: (location, load/store, object, offset, bytes, object size, partition described by affine constraints only)
        self.null_derefs = []    # (location, load/store, last opaque conditions, partition described by affine constraints only)
        self.aborts = []         # partitions that ended in a noreturn call (failed assertion in assertion-enabled builds)
        self.nofork = 0          # mask of input bits that must not be partitioned on (e.g. an unknown string length)
        self.nforks = 0
        self.globals_loaded = set()

    def opaque_bits(self, n, depmask, tag):
        """the result of a non-linear operation as fresh named symbols (an unknown function of its operands): sound for universally
        quantified obligations; the dependency set is kept for purity rules"""
        if not hasattr(self, '_nopq'): self._nopq = 0; self.opaque_deps = {}
        self._nopq += 1
        out = []
        for j in range(n):
            b = self.V.bit('opq%d<%s>.%d' % (self._nopq, tag, j))
            self.opaque_deps[b[0]] = depmask
            out.append(b)
        return out

    # ---------- memory
    def global_obj(self, st, name):
        key = 'g:' + name
        if key not in st.mem.objs:
            g = self.P.globals.get(name)
            if g is None or 'init' not in g:
                raise Unmodelled('access to global %s without initialiser' % name)
            if not hasattr(self, '_gimg'): self._gimg = {}
            if name not in self._gimg:
                cells = []
                self._flatten(g['init'], cells)
                if g['ty'] == '%struct.polyseed_dependency' and not g.get('constant'):
                    # harness precondition (documented): polyseed_inject has been called - every table entry is a non-NULL function
                    for off, (fld, sz) in self.P.dep_fields.items():
                        for k in range(8): cells[off + k] = ('ptr', Ptr('f:injected_' + fld, 0), k)
                self._gimg[name] = cells
            st.mem.objs[key] = self._gimg[name]          # shared image: copy-on-write protects it
        return key

    def _flatten(self, t, cells):
        k = t['k']
        if k == 'int':
            n = t['size']; v = t['v']
            for i in range(n):
                cells.append([(v >> (8 * i + j)) & 1 for j in range(8)])
        elif k in ('zero',):
            for i in range(t['size']): cells.append([0] * 8)
        elif k == 'undef':
            for i in range(t['size']): cells.append([U] * 8)
        elif k == 'bytes':
            b = bytes.fromhex(t['hex'])
            for c in b: cells.append([(c >> j) & 1 for j in range(8)])
            for i in range(t['size'] - len(b)): cells.append([0] * 8)
        elif k == 'array':
            for e in t['elems']:
                n0 = len(cells); self._flatten(e, cells)
                while len(cells) - n0 < t['esize']: cells.append([0] * 8)
        elif k == 'struct':
            base = len(cells)
            for f in t['fields']:
                while len(cells) - base < f['off']: cells.append([0] * 8)
                self._flatten(f['v'], cells)
            while len(cells) - base < t['size']: cells.append([0] * 8)
        elif k in ('gref', 'fref'):
            p = Ptr(('g:' if k == 'gref' else 'f:') + t['name'], t['off'])
            for i in range(8): cells.append(('ptr', p, i))
        else:
            raise Unmodelled('constant initialiser kind %s' % k)

    def _cells(self, st, ptr, n, inst, kind):
        if isinstance(ptr, BV):
            if ptr.concrete() == 0:
                st.events.append(('null-deref', inst.loc))
                self.null_derefs.append((inst.loc, kind, [str(o_)[:80] for o_ in st.cons.opaque[-2:]], not st.cons.opaque))
                raise Unmodelled('NULL dereference at %s' % inst.loc)
            raise Unmodelled('memory access through a non-pointer value at %s' % inst.loc)
        if not isinstance(ptr, Ptr):
            raise Unmodelled('memory access through %r at %s' % (ptr, inst.loc))
        off = ptr.coff()
        if off is None:
            red = [st.cons.reduce(b) for b in ptr.off.bits]
            for b in red:
                if is_form(b) and not (b[0] & self.nofork): raise Fork(b)
            ptr = Ptr(ptr.obj, BV(red))
            off = ptr.coff()
            if off is None:
                return None, None
        obj = ptr.obj
        if obj.startswith('g:') and obj not in st.mem.objs:
            self.global_obj(st, obj[2:])
        if obj not in st.mem.objs:
            if obj.startswith('a:') and not st.cons.opaque:
                raise UnsafeAccess('%s through a pointer to local %s after its function returned, at %s' % (kind, obj.split(':')[2] + ' of ' + obj.split(':')[1], inst.loc), inst.loc,
                                   {'access': kind, 'dead_local': obj, 'entry': getattr(self, 'entry', None)})
            raise Unmodelled('access to unknown object %s at %s' % (obj, inst.loc))
        size = len(st.mem.objs[obj])
        ok = 0 <= off and off + n <= size
        self.accesses.append((inst.fn.name, inst.loc, obj, off, n, kind, ok))
        if ok: ACCESS_LOG.add((base_name(inst.fn.name), inst.loc))
        if not ok:
            st.events.append(('out-of-bounds', inst.loc, obj, off, n, size))
            self.oob.append((inst.loc, kind, obj, off, n, size, not st.cons.opaque))
            msg = 'out-of-bounds %s of %d bytes at offset %d of %s (size %d) at %s' % (kind, n, off, obj, size, inst.loc)
            from .ir import PUBLIC_API
            if not st.cons.opaque and (obj.startswith('g:') or obj.startswith('a:') or getattr(self, 'entry', None) in PUBLIC_API or obj in getattr(self, 'contract', ())):
                raise UnsafeAccess(msg, inst.loc, {'access': kind, 'object': obj, 'offset': off, 'bytes': n, 'object_size': size, 'entry': getattr(self, 'entry', None)})
            raise Unmodelled(msg)
        return obj, off

    def load(self, st, ptr, nbytes, inst, as_ptr=False):
        if isinstance(ptr, Tag) and not as_ptr and nbytes == 1:
            # a byte of an input token (opaque string): an unknown input byte, the same symbol for the same byte every time
            t = ptr.payload[0] if ptr.kind == 'gep' else ptr
            off = ptr.payload[1] if ptr.kind == 'gep' else 0
            if isinstance(t, Tag) and t.kind == 'token' and ptr.kind in ('gep', 'token'):
                st.trace.append(('token-byte-read', t.payload, off, inst.loc))
                if off == '?': return BV([T(0)] * 8)
                return self.V.bv('tok[%s][%s]' % (t.payload, off), 8)
        if isinstance(ptr, Ptr) and ptr.obj in st.mem.hooks:
            return st.mem.hooks[ptr.obj](self, st, ptr, nbytes, inst, as_ptr)
        obj, off = self._cells(st, ptr, nbytes, inst, 'load')
        if obj is None:
            return BV([T(0)] * (8 * nbytes)) if not as_ptr else Tag('unknown-pointer')
        cells = st.mem.objs[obj][off:off + nbytes]
        if nbytes == 8 and all(isinstance(c, tuple) and c[0] == 'ptr' for c in cells):
            p = cells[0][1]
            if all(c[1] == p and c[2] == k for k, c in enumerate(cells)):
                return p
        if nbytes == 8 and all(isinstance(c, tuple) and c[0] == 'tag' for c in cells):
            return cells[0][1]
        bits = []
        for c in cells:
            if isinstance(c, tuple):
                bits += [T(0)] * 8
            else:
                bits += c
        if any(b == U for b in bits):
            st.events.append(('uninit-read', inst.loc, inst.fn.name, obj, off, nbytes))
        return BV(list(bits))

    def store(self, st, ptr, val, nbytes, inst):
        obj, off = self._cells(st, ptr, nbytes, inst, 'store')
        if obj is None:
            # weak update: the whole object becomes unknown
            if isinstance(ptr, Ptr) and ptr.obj in st.mem.objs:
                d = 0
                st.mem.objs[ptr.obj] = [[T(d)] * 8 for _ in st.mem.objs[ptr.obj]]; st.mem.owned.add(ptr.obj)
                return
            raise Unmodelled('store through unknown pointer at %s' % inst.loc)
        if obj in st.mem.ro or obj.startswith('g:') and self.P.globals.get(obj[2:], {}).get('constant'):
            st.events.append(('write-to-constant', inst.loc, obj))
        cells = st.mem.wcells(obj)
        if isinstance(val, Ptr):
            for k in range(8): cells[off + k] = ('ptr', val, k)
        elif isinstance(val, Tag):
            for k in range(nbytes): cells[off + k] = ('tag', val, k)
        else:
            for k in range(nbytes):
                cells[off + k] = list(val.bits[8 * k:8 * k + 8])

    # ---------- values
    def val(self, st, frame, v, bits=None):
        k = v['k']
        if k == 'c': return BV.const(v['v'], v['bits'])
        if k == 'i':
            x = frame['regs'][v['id']]
            if isinstance(x, BV) and st.cons.pmask:
                return BV([st.cons.reduce(b) for b in x.bits], x.zero_iff)
            if isinstance(x, Ptr) and st.cons.pmask and x.off.concrete() is None:
                parts = x.parts
                if parts is not None:
                    parts = (parts[0], [(BV([st.cons.reduce(b) for b in ib.bits]), stride) for ib, stride in parts[1]])
                return Ptr(x.obj, BV([st.cons.reduce(b) for b in x.off.bits]), parts)
            return x
        if k == 'a': return frame['args'][v['n']]
        if k == 'null': return BV.const(0, 64)
        if k == 'g': return Ptr('g:' + v['name'], v.get('off', 0))
        if k == 'f': return Ptr('f:' + v['name'], 0)
        if k == 'undef': return BV([U] * (bits or 64))
        if k == 'const':
            cells = []; self._flatten(v['tree'], cells)
            bb = []
            for c in cells: bb += c
            return BV(bb)
        raise Unmodelled('operand kind %s' % k)

    def add(self, a, b, cin=0):
        # fast path: both operands concrete
        va = vb = 0; conc = True
        for k, (x, y) in enumerate(zip(a, b)):
            if x == 1: va |= 1 << k
            elif x != 0: conc = False; break
            if y == 1: vb |= 1 << k
            elif y != 0: conc = False; break
        if conc and (cin == 0 or cin == 1):
            r = va + vb + cin
            return [(r >> k) & 1 for k in range(len(a))]
        out = []; c = cin
        for x, y in zip(a, b):
            xy = bxor(x, y)
            out.append(bxor(xy, c))
            c = bxor(band(x, y), band(c, xy))
        return out

    def binop(self, st, op, a, b, inst):
        w = inst.d['bits']
        if isinstance(a, Ptr) or isinstance(b, Ptr):
            if op == 'sub' and isinstance(a, Ptr) and isinstance(b, Ptr) and a.obj == b.obj and a.parts and b.coff() is not None and not (b.parts and b.parts[1]):
                # &obj.member[idx] - &obj.member[0]: the constant parts cancel exactly, the scaled indices remain
                r = BV.const((a.parts[0] - b.coff()) & ((1 << 64) - 1), 64).bits
                fake = type('I', (), {'d': {'bits': 64}, 'loc': inst.loc})()
                for idx_, stride_ in a.parts[1]:
                    ib = idx_.bits + [idx_.bits[-1]] * (64 - len(idx_.bits))
                    r = self.add(r, self.binop(st, 'mul', BV(ib[:64]), BV.const(stride_, 64), fake).bits)
                return BV(r)
            if op == 'sub' and isinstance(a, Ptr) and isinstance(b, Ptr) and a.obj == b.obj:
                return BV(self.add(a.off.bits, [bnot(x) for x in b.off.bits], 1))
            if op == 'sub' and isinstance(a, Ptr) and isinstance(b, Ptr):
                return BV([T(0)] * w)
            raise Unmodelled('arithmetic %s on pointer at %s' % (op, inst.loc))
        A, B = a.bits, b.bits
        if op in ('and', 'or', 'mul'):
            # branch-free selection `(p & ~m) | (q & m)` with m = 0 - cond: a word all of whose symbolic bits are one form (or its complement) is a mask;
            # combining it with another symbolic word partitions on that form (the arms are merged again exactly at the function's return)
            for M_, O_ in ((A, B), (B, A)):
                g = _mask_form(M_)
                if g is not None and not (g[0] & self.nofork) and any(is_form(x) or is_top(x) for x in O_):
                    raise Fork(g)
        if op == 'and': return BV([band(x, y) for x, y in zip(A, B)])
        if op == 'or': return BV([bor(x, y) for x, y in zip(A, B)])
        if op == 'xor': return BV([bxor(x, y) for x, y in zip(A, B)])
        if op == 'add': return BV(self.add(A, B))
        if op == 'sub': return BV(self.add(A, [bnot(y) for y in B], 1))
        cb = b.concrete(); ca = a.concrete()
        alld = 0
        for x in A + B: alld |= deps(x)
        if op in ('shl', 'lshr', 'ashr'):
            if cb is None:
                return BV([T(alld)] * w)
            if cb >= w: return BV([0] * w) if op != 'ashr' else BV([A[-1]] * w)
            if op == 'shl': return BV([0] * cb + A[:w - cb])
            if op == 'lshr': return BV(A[cb:] + [0] * cb)
            return BV(A[cb:] + [A[-1]] * cb)
        if op == 'mul':
            if ca is not None and cb is None: A, B, ca, cb = B, A, cb, ca
            if cb is not None:
                acc = [0] * w
                for j in range(w):
                    if (cb >> j) & 1:
                        acc = self.add(acc, ([0] * j + A)[:w])
                return BV(acc)
            acc = [0] * w
            for j in range(w):
                if B[j] == 0: continue
                pp = [0] * j + [band(x, B[j]) for x in A]
                acc = self.add(acc, pp[:w])
            return BV(acc)
        if op in ('udiv', 'urem', 'sdiv', 'srem'):
            if ca is not None and cb is not None and cb != 0:
                if op in ('sdiv', 'srem'):
                    sa = ca - (1 << w) if ca >> (w - 1) else ca; sb = cb - (1 << w) if cb >> (w - 1) else cb
                    q = abs(sa) // abs(sb) * (1 if (sa < 0) == (sb < 0) else -1); r = sa - q * sb
                    return BV.const((q if op == 'sdiv' else r) & ((1 << w) - 1), w)
                return BV.const(ca // cb if op == 'udiv' else ca % cb, w)
            if cb is not None and cb != 0 and cb & (cb - 1) == 0:
                k = cb.bit_length() - 1
                if op == 'udiv': return BV(A[k:] + [0] * k)
                if op == 'urem': return BV(A[:k] + [0] * (w - k))
                if op == 'sdiv' and A[-1] == 0: return BV(A[k:] + [0] * k)
                if op == 'srem' and A[-1] == 0: return BV(A[:k] + [0] * (w - k))
            if cb is not None and cb != 0 and op == 'udiv':
                # known-zero high bits are preserved by an unsigned division: result <= a >> floor(log2(divisor))
                hz = 0
                for x in reversed(A):
                    if x == 0: hz += 1
                    else: break
                hz2 = min(w, hz + cb.bit_length() - 1)
                return BV(self.opaque_bits(w - hz2, alld, 'udiv@%s' % inst.loc) + [0] * hz2)
            if cb is not None and cb != 0 and op == 'urem':
                k = cb.bit_length()
                return BV(self.opaque_bits(min(w, k), alld, 'urem@%s' % inst.loc) + [0] * (w - min(w, k)))
            return BV([T(alld)] * w)
        raise Unmodelled('binary opcode %s at %s' % (op, inst.loc))

    def icmp(self, st, inst, a, b):
        pred = inst.d['pred']
        if isinstance(a, Tag) or isinstance(b, Tag):
            raise Unmodelled('comparison of opaque token at %s' % inst.loc)
        if isinstance(a, Ptr) or isinstance(b, Ptr):
            if isinstance(a, Ptr) and isinstance(b, Ptr):
                if a.obj == b.obj:
                    a, b = a.off, b.off
                else:
                    if pred in ('eq', 'ne'): return BV([1 if pred == 'ne' else 0])
                    if not st.cons.opaque and all(o_.startswith('g:') or o_.startswith('a:') for o_ in (a.obj, b.obj)):
                        # two objects of the library itself: the relational comparison is undefined (C11 6.5.8p5) and its outcome is link-order dependent
                        raise UnsafeAccess('relational comparison (%s) of pointers to the different objects %s and %s at %s' % (pred, a.obj[2:], b.obj[2:], inst.loc), inst.loc,
                                           {'access': 'pointer ' + pred, 'objects': [a.obj, b.obj], 'entry': getattr(self, 'entry', None)})
                    raise Unmodelled('ordering of pointers to different objects at %s' % inst.loc)
            else:
                other = b if isinstance(a, Ptr) else a
                if other.concrete() == 0 and pred in ('eq', 'ne'):
                    return BV([1 if pred == 'ne' else 0])
                raise Unmodelled('pointer/integer comparison at %s' % inst.loc)
        A, B = a.bits, b.bits
        w = len(A)
        ca, cb = a.concrete(), b.concrete()
        if ca is not None and cb is not None:
            def s(x): return x - (1 << w) if x >> (w - 1) else x
            r = {'eq': ca == cb, 'ne': ca != cb, 'ult': ca < cb, 'ule': ca <= cb, 'ugt': ca > cb, 'uge': ca >= cb,
                 'slt': s(ca) < s(cb), 'sle': s(ca) <= s(cb), 'sgt': s(ca) > s(cb), 'sge': s(ca) >= s(cb)}[pred]
            return BV([int(r)])
        alld = 0
        for x in A + B: alld |= deps(x)
        def allzero(bits, negate):
            """condition 'all these bits are zero' (negated if negate) as a bit + structured info"""
            nz = [x for x in bits if x != 0]
            if any(x == 1 for x in nz): return BV([1 if negate else 0])
            if not nz: return BV([0 if negate else 1])
            if len(nz) == 1 and is_form(nz[0]):
                return BV([bxor(nz[0], 0 if negate else 1)])
            r = BV([T(alld)])
            r.zero_iff = ('allzero', nz, negate)      # value is (not negate) iff all nz are zero
            return r
        if pred in ('eq', 'ne'):
            zi = None
            if cb == 0 and a.zero_iff is not None: zi = a.zero_iff
            if ca == 0 and b.zero_iff is not None: zi = b.zero_iff
            if zi is not None and zi[0] == 'bits':
                return allzero(zi[1], pred == 'ne')
            d = [bxor(x, y) for x, y in zip(A, B)]
            return allzero(d, pred == 'ne')
        # unsigned comparisons against constants of the form 2^k (x < 2^k  <=> high bits zero)
        if pred in ('ult', 'uge') and cb is not None and cb != 0 and cb & (cb - 1) == 0:
            k = cb.bit_length() - 1
            return allzero(A[k:], pred == 'uge')
        if pred in ('ule', 'ugt') and cb is not None and (cb + 1) & cb == 0:
            k = (cb + 1).bit_length() - 1
            if k >= w: return BV([1 if pred == 'ule' else 0])
            return allzero(A[k:], pred == 'ugt')
        if pred in ('ugt', 'ule') and ca is not None and ca != 0 and ca & (ca - 1) == 0:   # C > x
            k = ca.bit_length() - 1
            return allzero(B[k:], pred == 'ule')
        if pred in ('slt', 'sge') and cb == 0:
            sb = A[-1]
            return BV([sb if pred == 'slt' else bnot(sb)])
        if pred in ('sgt', 'sle') and cb == 0 and A[-1] == 0:    # non-negative x: x > 0 <=> x != 0
            return allzero(A, pred == 'sgt')
        if pred in ('sge', 'slt') and cb == 1 and A[-1] == 0:    # non-negative x: x >= 1 <=> x != 0
            return allzero(A, pred == 'sge')
        if pred in ('sgt', 'sle') and cb == (1 << w) - 1:     # x > -1
            sb = A[-1]
            return BV([bnot(sb) if pred == 'sgt' else sb])
        # general ordering: decide from the interval spanned by the unknown bits, else partition on the highest unknown bit
        if pred in ('slt', 'sle', 'sgt', 'sge'):
            A = A[:-1] + [bnot(A[-1])]; B = B[:-1] + [bnot(B[-1])]
            pred = {'slt': 'ult', 'sle': 'ule', 'sgt': 'ugt', 'sge': 'uge'}[pred]
        def rng(bits):
            lo = hi = 0
            for k, x in enumerate(bits):
                if x == 1: lo |= 1 << k; hi |= 1 << k
                elif x != 0: hi |= 1 << k
            return lo, hi
        la, ha = rng(A); lb, hb = rng(B)
        if pred == 'ult':
            if ha < lb: return BV([1])
            if la >= hb: return BV([0])
        elif pred == 'ule':
            if ha <= lb: return BV([1])
            if la > hb: return BV([0])
        elif pred == 'ugt':
            if la > hb: return BV([1])
            if ha <= lb: return BV([0])
        elif pred == 'uge':
            if la >= hb: return BV([1])
            if ha < lb: return BV([0])
        if any(x == U for x in A + B):
            return BV([U])
        for k in range(w - 1, -1, -1):
            for x in (A[k], B[k]):
                if is_top(x): return BV([T(alld)])
                if is_form(x): raise Fork(x)
        return BV([T(alld)])

    @staticmethod
    def _select_same(zi, a, b):
        """select(c, a, b) with c <=> (not) all of zi[1] zero: if the operand chosen when they are all zero equals the other operand with those
        bits set to zero, the select is that other operand"""
        _, nz, negate = zi
        zsel, other = (b, a) if negate else (a, b)
        if len(zsel.bits) != len(other.bits): return None
        for x, y in zip(other.bits, zsel.bits):
            if x == y: continue
            if y == 0 and any(x == z for z in nz): continue
            return None
        return other

    # ---------- execution
    def run(self, fname, args, st):
        f = self.P.fn(fname) if isinstance(fname, str) else fname
        self.entry = base_name(f.name)
        return self.run_function(f, args, st, 0)

    def run_function(self, f, args, st, depth):
        if depth > 12:
            raise Unmodelled('call depth exceeded at %s' % f.name)
        frame = {'f': f, 'regs': {}, 'args': list(args), 'allocas': []}
        outs = self.run_from(f, frame, 0, None, 0, st, depth)
        for o in outs:
            for a in frame['allocas']:
                o.state.mem.objs.pop(a, None)
        return outs

    def run_from(self, f, frame, bb, prev, idx, st, depth):
        """execute from instruction idx of block bb until the function returns; returns list of Outcome"""
        while True:
            blk = f.blocks[bb]
            if idx == 0:
                # phis in parallel
                newv = {}
                for i in blk:
                    if i.op != 'phi': break
                    for v, pb in i.d['incoming']:
                        if pb == prev:
                            newv[i.id] = self.val(st, frame, v, i.d['bits'])
                frame['regs'].update(newv)
            jumped = False
            k = idx
            while k < len(blk):
                i = blk[k]
                self.steps += 1
                if self.steps > self.max_steps:
                    raise Unmodelled('step budget exceeded in %s (a loop whose exit depends on input bits?)' % f.name)
                if i.op == 'phi' or self.P.is_dbg(i):
                    k += 1; continue
                try:
                    r = self.step(f, frame, i, st, depth)
                except Fork as fk:
                    return self.fork(f, frame, bb, prev, k, st, depth, fk.form)
                except ForkSelect as fs:
                    return self.fork_select(f, frame, bb, prev, k, st, depth, fs.cond, i)
                except ForkValue as fv:
                    return self.fork_value(f, frame, bb, prev, k, st, depth, fv.valref, fv.zi, i)
                if r is None:
                    k += 1; continue
                kind = r[0]
                if kind == 'ret':
                    rv = r[1]
                    if isinstance(rv, BV) and rv.concrete() is None and rv.zero_iff is not None and rv.zero_iff[0] == 'cond' and len(rv.zero_iff) == 4:
                        # `return cond ? K : 0` with a structured condition that was never branched on: two partitions with concrete results
                        _, (_, zbits, zneg), K, wd = rv.zero_iff
                        outs = []
                        for zero_arm in (True, False):
                            s2 = st.clone(); ok = True
                            holds_allzero = (zero_arm == zneg)       # the structured condition says when the value is NON-zero: iff allzero(zbits) == (not zneg)
                            if holds_allzero:
                                for b_ in zbits:
                                    if is_form(b_) or is_const(b_):
                                        if not s2.cons.add(b_, 0): ok = False
                            s2.cons.opaque.append(('%s:%s' % (i.loc, 'allzero' if holds_allzero else 'not-allzero'), [self.V.show(b_) for b_ in zbits][:12]))
                            if ok: outs.append(Outcome(s2, BV.const(0 if zero_arm else K, wd)))
                        return outs
                    if isinstance(rv, BV) and rv.w == 1 and is_top(rv.bits[0]) and rv.zero_iff is not None and rv.zero_iff[0] == 'allzero' and depth == 0:
                        # the analysed function itself returns a boolean decided by a structured condition: two partitions with concrete answers
                        _, zbits, zneg = rv.zero_iff
                        outs = []
                        for truth in (1, 0):
                            s2 = st.clone(); ok = True
                            holds_allzero = (truth == 1) == (not zneg)
                            if holds_allzero:
                                for b_ in zbits:
                                    if is_form(b_) or is_const(b_):
                                        if not s2.cons.add(b_, 0): ok = False
                            s2.cons.opaque.append(('%s:%s' % (i.loc, 'allzero' if holds_allzero else 'not-allzero'), [self.V.show(b_) for b_ in zbits][:12]))
                            if ok: outs.append(Outcome(s2, BV.const(truth, 1)))
                        return outs
                    return [Outcome(st, rv)]
                if kind == 'abort':
                    self.aborts.append((i.loc, list(st.cons.opaque)[-2:]))
                    return []
                if kind == 'jump':
                    prev, bb, idx = bb, r[1], 0; jumped = True; break
                if kind == 'fork-br':
                    # conditional branch on a symbolic bit
                    _, form, tb, fb, info = r
                    if form is None and info is not None and info[0] == 'allzero':
                        dj = self._value_diamond(f, frame, st, bb, tb, fb, info)
                        if dj is not None:
                            # `x != 0 ? x : 0`-style diamond whose arms compute nothing: the join's phis are decided without partitioning
                            j, vals, via = dj
                            frame['regs'].update(vals)
                            prev, bb, idx = via, j, max(1, len(vals)); jumped = True
                            if not vals: idx = 0
                            break
                    return self.fork_branch(f, frame, bb, st, depth, form, tb, fb, info, i)
                if kind == 'fork-switch':
                    return self.fork_switch(f, frame, bb, st, depth, r[1], r[2])
                if kind == 'multi':
                    # a call returned several partitions: continue each
                    outs = []
                    for o in r[1]:
                        fr2 = {'f': f, 'regs': dict(frame['regs']), 'args': frame['args'], 'allocas': frame['allocas']}
                        if i.d['bits']: fr2['regs'][i.id] = o.ret
                        outs += self.run_from(f, fr2, bb, prev, k + 1, o.state, depth)
                        if len(outs) > self.budget: raise Unmodelled('partition budget exceeded in %s' % f.name)
                    return outs
                raise Unmodelled('internal: step result %r' % (r,))
            if not jumped:
                raise Unmodelled('fell off block %d of %s' % (bb, f.name))

    def _value_diamond(self, f, frame, st, bb, tb, fb, info):
        def passthrough(b):
            ins = [x for x in f.blocks[b] if not self.P.is_dbg(x)]
            if len(ins) == 1 and ins[0].op == 'br' and len(f.succs[b]) == 1: return f.succs[b][0]
            return None
        jt, jf = passthrough(tb), passthrough(fb)
        if jt is not None and jt == jf: j, pt, pf = jt, tb, fb
        elif jt is not None and jt == fb: j, pt, pf = fb, tb, bb
        elif jf is not None and jf == tb: j, pt, pf = tb, bb, fb
        else: return None
        vals = {}
        for p in f.blocks[j]:
            if p.op != 'phi': break
            inc = {pb: v for v, pb in p.d['incoming']}
            if set(inc) != {pt, pf}: return None
            a = self.val(st, frame, inc[pt], p.d['bits']); b = self.val(st, frame, inc[pf], p.d['bits'])
            if isinstance(a, BV) and isinstance(b, BV):
                m = a if a.bits == b.bits else self._select_same(info, a, b)
            else:
                m = a if a == b else None
            if m is None: return None
            vals[p.id] = m
        return j, vals, pt

    def _merge_or_keep(self, form, o0, o1, parent_cons):
        if len(o0) == 1 and len(o1) == 1:
            m = self.merge(form, o0[0], o1[0], parent_cons)
            if m is not None: return [m]
        outs = o0 + o1
        if len(outs) > self.budget: raise Unmodelled('partition budget exceeded')
        return outs

    def fork(self, f, frame, bb, prev, k, st, depth, form):
        """re-execute instruction k under form=0 and form=1"""
        self.nforks += 1
        res = []
        for val in (0, 1):
            s2 = st.clone()
            if not s2.cons.add(form, val):
                res.append([]); continue
            fr2 = {'f': f, 'regs': dict(frame['regs']), 'args': frame['args'], 'allocas': frame['allocas']}
            res.append(self.run_from(f, fr2, bb, prev, k, s2, depth))
        return self._merge_or_keep(form, res[0], res[1], st.cons)

    def fork_branch(self, f, frame, bb, st, depth, form, tb, fb, info, inst):
        self.nforks += 1
        res = []
        for val, target in ((0, fb), (1, tb)):
            s2 = st.clone()
            if form is not None:
                if not s2.cons.add(form, val):
                    res.append([]); continue
            else:
                # structured / opaque condition
                ok = True
                if info is not None and info[0] == 'allzero':
                    _, bits, negate = info
                    cond_true_means_allzero = not negate
                    if (val == 1) == cond_true_means_allzero:
                        for b in bits:
                            if is_form(b) or is_const(b):
                                if not s2.cons.add(b, 0): ok = False
                    s2.cons.opaque.append(('%s:%s' % (inst.loc, 'allzero' if (val == 1) == cond_true_means_allzero else 'not-allzero'), [self.V.show(b) for b in bits][:12]))
                else:
                    s2.cons.opaque.append(('%s:%s' % (inst.loc, 'taken' if val else 'not-taken'), None))
                if not ok:
                    res.append([]); continue
            fr2 = {'f': f, 'regs': dict(frame['regs']), 'args': frame['args'], 'allocas': frame['allocas']}
            if form is None:
                self.refine_chain(f, fr2['regs'], inst.ops[0], val)
            res.append(self.run_from(f, fr2, target, bb, 0, s2, depth))
        if form is None:
            outs = res[0] + res[1]
            if len(outs) > self.budget: raise Unmodelled('partition budget exceeded')
            return outs
        return self._merge_or_keep(form, res[0], res[1], st.cons)

    def fork_switch(self, f, frame, bb, st, depth, sv, inst):
        """switch on a symbolic value: one partition per case (value == case constant, as linear constraints on its bits) and one for default"""
        self.nforks += 1
        outs = []
        seen_targets = []
        for cval, target in inst.d['cases']:
            s2 = st.clone(); ok = True
            for k, b in enumerate(sv.bits):
                want = (cval >> k) & 1
                if is_const(b):
                    if b != want: ok = False
                elif is_form(b):
                    if not s2.cons.add(b, want): ok = False
            if not ok: continue
            s2.cons.opaque.append(('%s:switch-case-%d' % (inst.loc, cval), None))
            fr2 = {'f': f, 'regs': dict(frame['regs']), 'args': frame['args'], 'allocas': frame['allocas']}
            outs += self.run_from(f, fr2, target, bb, 0, s2, depth)
        s2 = st.clone()
        s2.cons.opaque.append(('%s:switch-default' % inst.loc, [c for c, _ in inst.d['cases']]))
        fr2 = {'f': f, 'regs': dict(frame['regs']), 'args': frame['args'], 'allocas': frame['allocas']}
        outs += self.run_from(f, fr2, inst.d['default'], bb, 0, s2, depth)
        if len(outs) > self.budget: raise Unmodelled('partition budget exceeded')
        return outs

    def refine_chain(self, f, regs, v, val):
        """in a partition where the i1 value v is known to be `val`, make the registers it was computed from (through zext / trunc /
        comparison with 0 / negation) concrete as well, so that later uses of the same flag do not partition again"""
        n = 0
        while v['k'] == 'i' and n < 8:
            i = f.insts.get(v['id'])
            if i is None or v['id'] not in regs: break
            cur = regs[v['id']]
            if not isinstance(cur, BV): break
            if cur.concrete() is None:
                regs[v['id']] = BV.const(val, cur.w)
            if i.op in ('zext', 'trunc'):
                v = i.ops[0]
            elif i.op == 'icmp' and i.d['pred'] in ('ne', 'eq') and i.ops[1].get('k') == 'c' and i.ops[1]['v'] == 0:
                src = regs.get(i.ops[0]['id']) if i.ops[0]['k'] == 'i' else None
                if isinstance(src, BV) and src.concrete() is None and src.zero_iff is not None and src.zero_iff[0] == 'cond' and len(src.zero_iff) >= 4:
                    # `status = cond ? K : 0` compared with 0: in this partition the status register itself is known
                    nonzero = (val == 1) == (i.d['pred'] == 'ne')
                    regs[i.ops[0]['id']] = BV.const(src.zero_iff[2] if nonzero else 0, src.w)
                    break
                if not (isinstance(src, BV) and all(x == 0 for x in src.bits[1:])): break      # only 0/1-valued sources
                if i.d['pred'] == 'eq': val = 1 - val
                v = i.ops[0]
            elif i.op == 'xor' and i.ops[1].get('k') == 'c' and i.ops[1]['v'] == 1 and i.d['bits'] == 1:
                val = 1 - val; v = i.ops[0]
            else:
                break
            n += 1

    def fork_value(self, f, frame, bb, prev, k, st, depth, valref, zi, inst):
        """the register valref holds 0 or a known non-zero constant depending on a structured condition: re-execute instruction k in both partitions with the register concrete"""
        self.nforks += 1
        outs = []
        _, (_, bits, negate) = zi[0], zi[1]
        K = zi[2] if len(zi) >= 4 else 1
        cur = frame['regs'][valref['id']]
        for nonzero in (False, True):
            s2 = st.clone(); ok = True
            holds_allzero = ((not negate) if nonzero else negate)
            if holds_allzero:
                for b in bits:
                    if is_form(b) or is_const(b):
                        if not s2.cons.add(b, 0): ok = False
            s2.cons.opaque.append(('%s:value-%s' % (inst.loc, 'allzero' if holds_allzero else 'not-allzero'), [self.V.show(b) for b in bits][:12]))
            if not ok: continue
            fr2 = {'f': f, 'regs': dict(frame['regs']), 'args': frame['args'], 'allocas': frame['allocas']}
            fr2['regs'][valref['id']] = BV.const(K if nonzero else 0, cur.w)
            outs += self.run_from(f, fr2, bb, prev, k, s2, depth)
            if len(outs) > self.budget: raise Unmodelled('partition budget exceeded')
        return outs

    def fork_select(self, f, frame, bb, prev, k, st, depth, cond, inst):
        """re-execute the select at position k with its condition forced to 0 and to 1, refining the state like a branch would"""
        self.nforks += 1
        outs = []
        info = cond.zero_iff if cond.zero_iff and cond.zero_iff[0] == 'allzero' else None
        for val in (0, 1):
            s2 = st.clone(); ok = True
            if info is not None:
                _, bits, negate = info
                if (val == 1) == (not negate):
                    for b in bits:
                        if is_form(b) or is_const(b):
                            if not s2.cons.add(b, 0): ok = False
                s2.cons.opaque.append(('%s:select-%s' % (inst.loc, 'allzero' if (val == 1) == (not negate) else 'not-allzero'), [self.V.show(b) for b in bits][:12]))
            else:
                s2.cons.opaque.append(('%s:select-%s' % (inst.loc, 'true' if val else 'false'), None))
            if not ok: continue
            s2.forced[(f.name, inst.id)] = val
            fr2 = {'f': f, 'regs': dict(frame['regs']), 'args': frame['args'], 'allocas': frame['allocas']}
            self.refine_chain(f, fr2['regs'], inst.ops[0], val)
            outs += self.run_from(f, fr2, bb, prev, k, s2, depth)
            if len(outs) > self.budget: raise Unmodelled('partition budget exceeded')
        return outs

    # exact affine merge of two single outcomes split on `form`
    def merge_bit(self, form, r0, r1):
        if r0 == r1: return r0
        if r0 == U or r1 == U: return None
        if is_top(r0) and is_top(r1): return T(deps(r0) | deps(r1) | deps(form))
        if is_top(r0) or is_top(r1): return None
        d = bxor(r0, r1)
        if d == 1: return bxor(r0, form)
        return None

    def merge_val(self, form, a, b):
        if isinstance(a, BV) and isinstance(b, BV) and a.w == b.w:
            bits = []
            for x, y in zip(a.bits, b.bits):
                m = self.merge_bit(form, x, y)
                if m is None: return None
                bits.append(m)
            return BV(bits)
        if a is None and b is None: return 'none'
        if isinstance(a, (Ptr, Tag, Agg)) and a == b: return a
        return None

    def merge(self, form, o0, o1, parent_cons):
        s0, s1 = o0.state, o1.state
        if s0.trace != s1.trace: return None
        if s0.cons.opaque != s1.cons.opaque: return None
        rv = self.merge_val(form, o0.ret, o1.ret)
        if rv is None: return None
        for a, b in ((s0, s1), (s1, s0)):
            for name in a.mem.objs:
                if name not in b.mem.objs:
                    if name.startswith('g:'): b.mem.objs[name] = a.mem.objs[name]     # lazily loaded global image
                    else: return None
        newobjs = {}
        for name, c0 in s0.mem.objs.items():
            c1 = s1.mem.objs[name]
            if c0 is c1 or c0 == c1:
                newobjs[name] = c0; continue
            if len(c0) != len(c1): return None
            nc = []
            for x, y in zip(c0, c1):
                if x == y: nc.append(x); continue
                if isinstance(x, tuple) or isinstance(y, tuple): return None
                bits = []
                for p, q in zip(x, y):
                    m = self.merge_bit(form, p, q)
                    if m is None: return None
                    bits.append(m)
                nc.append(bits)
            newobjs[name] = nc
        st = State(Mem(), parent_cons.clone())
        st.mem.objs = newobjs; st.mem.ro = s0.mem.ro; st.mem.hooks = s0.mem.hooks; st.mem.owned = set()
        st.trace = s0.trace
        st.events = s0.events + [e for e in s1.events if e not in s0.events]
        st.cons.opaque = list(s0.cons.opaque)
        return Outcome(st, None if rv == 'none' else rv)

    def step(self, f, frame, i, st, depth):
        op = i.op; regs = frame['regs']
        V = lambda k: self.val(st, frame, i.ops[k], i.d.get('bits'))
        if op == 'alloca':
            st.nalloca += 1
            name = 'a:%s:%s:%d' % (base_name(f.name), i.d.get('var', i.id), st.nalloca)
            st.mem.new(name, i.d['alloc_size'], U)
            frame['allocas'].append(name)
            regs[i.id] = Ptr(name, 0)
        elif op == 'load':
            p = V(0)
            regs[i.id] = self.load(st, p, i.d['size'], i, as_ptr=i.d['ty'].endswith('*'))
        elif op == 'store':
            v = self.val(st, frame, i.ops[0], i.d['val_bits']); p = V(1)
            self.store(st, p, v, i.d['size'], i)
        elif op == 'getelementptr':
            base = V(0)
            if isinstance(base, Tag):
                if base.kind == 'gep':
                    regs[i.id] = Tag('gep', (base.payload[0], '?' if i.d['var_steps'] or base.payload[1] == '?' else base.payload[1] + i.d['const_off'])); return None
                regs[i.id] = Tag('gep', (base, '?' if i.d['var_steps'] else i.d['const_off'])); return None
            if not isinstance(base, Ptr):
                if isinstance(base, BV) and base.concrete() == 0:
                    raise Unmodelled('pointer arithmetic on NULL at %s' % i.loc)
                raise Unmodelled('GEP on non-pointer at %s' % i.loc)
            if base.obj in st.mem.hooks:
                c0, steps = base.parts if base.parts else (base.coff() or 0, [])
                steps = list(steps) + [(self.val(st, frame, s['idx']), s['stride']) for s in i.d['var_steps']]
                regs[i.id] = Ptr(base.obj, BV([T(0)] * 64) if steps else c0 + i.d['const_off'], (c0 + i.d['const_off'], steps))
                return None
            off = self.add(base.off.bits, BV.const(i.d['const_off'] & ((1 << 64) - 1), 64).bits)
            for s in i.d['var_steps']:
                idx = self.val(st, frame, s['idx'])
                if isinstance(idx, Ptr): raise Unmodelled('pointer as index at %s' % i.loc)
                ib = idx.bits
                if len(ib) < 64: ib = ib + [ib[-1]] * (64 - len(ib))      # GEP indices are sign-extended
                fake = type('I', (), {'d': {'bits': 64}, 'loc': i.loc})()
                prod = self.binop(st, 'mul', BV(ib), BV.const(s['stride'], 64), fake)
                off = self.add(off, prod.bits)
            regs[i.id] = Ptr(base.obj, BV(off))
        elif op in ('bitcast', 'ptrtoint', 'inttoptr'):
            regs[i.id] = V(0)
        elif op in ('zext', 'sext', 'trunc'):
            a = V(0)
            if isinstance(a, Ptr): regs[i.id] = a; return None
            w = i.d['bits']
            if op == 'trunc':
                r = BV(a.bits[:w])
                if a.zero_iff is not None and a.zero_iff[0] == 'bits' and all(x == 0 for x in a.bits[w:]):
                    r.zero_iff = a.zero_iff
                if a.zero_iff is not None and a.zero_iff[0] == 'cond' and all(x == 0 for x in a.bits[1:]):
                    # a boolean that was widened (bool stored in a byte) and is narrowed again: same condition
                    r.zero_iff = a.zero_iff[1] if w == 1 else a.zero_iff
            elif op == 'zext': r = BV(a.bits + [0] * (w - a.w)); r.zero_iff = a.zero_iff if a.zero_iff else ('bits', a.bits)
            else: r = BV(a.bits + [a.bits[-1]] * (w - a.w))
            if op == 'zext' and a.w == 1 and a.zero_iff is not None and a.zero_iff[0] == 'allzero':
                r.zero_iff = ('cond', a.zero_iff)
            regs[i.id] = r
        elif op in ('add', 'sub', 'mul', 'udiv', 'urem', 'sdiv', 'srem', 'and', 'or', 'xor', 'shl', 'lshr', 'ashr'):
            a = V(0); b = V(1)
            if op in ('add', 'sub', 'mul') and i.d['bits'] > 1:
                for k_, x in enumerate((a, b)):
                    if isinstance(x, BV) and x.concrete() is None and x.zero_iff is not None and x.zero_iff[0] == 'cond' and i.ops[k_]['k'] == 'i' \
                            and all(is_const(y) or is_top(y) for y in x.bits):
                        raise ForkValue(i.ops[k_], x.zero_iff)
            r = self.binop(st, op, a, b, i)
            if op == 'or' and isinstance(a, BV) and isinstance(b, BV) and any(is_top(x) for x in r.bits):
                # (a | b) == 0  iff  a == 0 and b == 0: remember the bits whose vanishing makes the value zero (OR-accumulated comparisons)
                def zb(x):
                    if x.zero_iff is not None and x.zero_iff[0] == 'bits': return list(x.zero_iff[1])
                    if x.zero_iff is None and not any(is_top(y) for y in x.bits): return [y for y in x.bits if y != 0]
                    return None
                za, zb_ = zb(a), zb(b)
                if za is not None and zb_ is not None: r.zero_iff = ('bits', za + zb_)
            if op == 'xor' and i.d['bits'] == 1 and isinstance(a, BV) and isinstance(b, BV):
                for x, y in ((a, b), (b, a)):
                    if y.concrete() == 1 and x.zero_iff and x.zero_iff[0] == 'allzero':
                        r.zero_iff = ('allzero', x.zero_iff[1], not x.zero_iff[2])
            regs[i.id] = r
        elif op == 'icmp':
            a = V(0); b = V(1)
            # comparisons of an i1 condition (zext'ed) with 0: propagate the structured condition
            r = None
            for x, y in ((a, b), (b, a)):
                if isinstance(x, BV) and isinstance(y, BV) and y.concrete() == 0 and x.zero_iff is not None and x.zero_iff[0] == 'cond' \
                        and i.d['pred'] in ('eq', 'ne'):
                    _, bits, negate = x.zero_iff[1]
                    r = BV([T(0)]); r.zero_iff = ('allzero', bits, negate if i.d['pred'] == 'ne' else not negate)
            if r is None:
                for k_, (x, y) in enumerate(((a, b), (b, a))):
                    if isinstance(x, BV) and isinstance(y, BV) and y.concrete() not in (None, 0) and x.concrete() is None and x.zero_iff is not None and x.zero_iff[0] == 'cond' \
                            and i.ops[k_]['k'] == 'i' and all(is_const(z) or is_top(z) for z in x.bits):
                        raise ForkValue(i.ops[k_], x.zero_iff)
            regs[i.id] = r if r is not None else self.icmp(st, i, a, b)
        elif op == 'select':
            c = V(0); a = V(1); b = V(2)
            cb = c.bits[0]
            fk = (f.name, i.id)
            if fk in st.forced:
                cb = st.forced.pop(fk)
            if cb == 1: regs[i.id] = a
            elif cb == 0: regs[i.id] = b
            elif isinstance(a, BV) and isinstance(b, BV) and a.w == 1 and a.concrete() is not None and b.concrete() is not None and a.concrete() != b.concrete():
                # cond ? 1 : 0  /  cond ? 0 : 1 : the condition itself (or its negation), structured information kept
                if a.concrete() == 1: regs[i.id] = c
                else:
                    r = BV([bnot(cb) if not is_top(cb) else cb])
                    if c.zero_iff and c.zero_iff[0] == 'allzero': r.zero_iff = ('allzero', c.zero_iff[1], not c.zero_iff[2])
                    regs[i.id] = r
            elif isinstance(a, BV) and isinstance(b, BV) and a.concrete() is not None and b.concrete() is not None and is_top(cb) \
                    and c.zero_iff and c.zero_iff[0] == 'allzero' and (a.concrete() == 0) != (b.concrete() == 0):
                # cond ? K : 0  /  cond ? 0 : K with a structured condition: keep "value == 0 iff ..." for the comparison that follows
                dd = deps(cb)
                r = BV([x if x == y else T(dd) for x, y in zip(a.bits, b.bits)])
                zi = c.zero_iff
                r.zero_iff = ('cond', zi if b.concrete() == 0 else ('allzero', zi[1], not zi[2]), a.concrete() if b.concrete() == 0 else b.concrete(), len(a.bits))
                regs[i.id] = r
            elif isinstance(a, BV) and isinstance(b, BV) and is_top(cb) and c.zero_iff and c.zero_iff[0] == 'allzero' and self._select_same(c.zero_iff, a, b) is not None:
                # x != 0 ? x : 0 and the like: both operands agree whenever the condition picks the constant side
                regs[i.id] = self._select_same(c.zero_iff, a, b)
            elif is_form(cb):
                m = self.merge_val(cb, b, a)      # cb=0 -> b, cb=1 -> a
                if m is None: raise Fork(cb)
                regs[i.id] = m
            else:
                if (isinstance(a, BV) and isinstance(b, BV) and a.bits == b.bits) or (not isinstance(a, BV) and a == b):
                    regs[i.id] = a
                else:
                    raise ForkSelect(c)          # partition on the condition, like a branch
        elif op == 'br':
            if len(i.ops) == 1:
                return ('jump', f.succs[i.bb][0])
            c = V(0)
            tb, fb = f.succs[i.bb][0], f.succs[i.bb][1]
            cb = c.bits[0]
            if cb == 1: return ('jump', tb)
            if cb == 0: return ('jump', fb)
            if cb == U:
                st.events.append(('branch-on-uninit', i.loc)); raise Unmodelled('branch on uninitialised value at %s' % i.loc)
            if is_form(cb): return ('fork-br', cb, tb, fb, None)
            return ('fork-br', None, tb, fb, c.zero_iff if c.zero_iff and c.zero_iff[0] == 'allzero' else None)
        elif op == 'ret':
            return ('ret', V(0) if i.ops else None)
        elif op == 'call':
            return self.call(f, frame, i, st, depth)
        elif op == 'insertvalue':
            agg = self.val(st, frame, i.ops[0]) if i.ops[0]['k'] != 'undef' else Agg()
            if not isinstance(agg, Agg): agg = Agg()
            a2 = Agg(agg.fields); a2.fields[tuple(i.d['indices'])] = self.val(st, frame, i.ops[1])
            regs[i.id] = a2
        elif op == 'extractvalue':
            agg = V(0)
            if not isinstance(agg, Agg) or tuple(i.d['indices']) not in agg.fields:
                raise Unmodelled('extractvalue of an unknown aggregate at %s' % i.loc)
            regs[i.id] = agg.fields[tuple(i.d['indices'])]
        elif op == 'unreachable':
            st.events.append(('unreachable', i.loc)); return ('ret', None)
        elif op == 'switch':
            sv = V(0)
            c = sv.concrete()
            if c is None:
                return ('fork-switch', sv, i)
            return ('jump', dict((a, b) for a, b in i.d['cases']).get(c, i.d['default']))
        else:
            raise Unmodelled('opcode %s at %s' % (op, i.loc))
        return None

    def call(self, f, frame, i, st, depth):
        t = self.P.call_target(i)
        args = [self.val(st, frame, a) for a in i.ops]
        regs = frame['regs']
        name = None
        if t[0] == 'direct': name = t[1]
        elif t[0] == 'dep': name = 'dep:' + t[1]
        elif t[0] == 'indirect':
            cv = self.val(st, frame, t[1])
            if isinstance(cv, Ptr) and cv.obj.startswith('f:'): name = cv.obj[2:]
            else: raise Unmodelled('indirect call through %r at %s' % (cv, i.loc))
        bn = base_name(name)
        summ = self.summaries.get(name) or self.summaries.get(bn)
        if summ is None and name in self.P.defined:
            # an internal helper that gained or lost the library prefix when it was moved between files
            alt = bn[len('polyseed_'):] if bn.startswith('polyseed_') else 'polyseed_' + bn
            summ = self.summaries.get(alt)
        if summ is not None:
            r = summ(self, st, args, i)
            if isinstance(r, list):       # partitions
                return ('multi', r)
            if i.d['bits']: regs[i.id] = r
            return None
        if name.startswith('llvm.memset') or name == 'memset':
            p, v, n = args[0], args[1], args[2].concrete()
            if n is None: raise Unmodelled('memset with symbolic size at %s' % i.loc)
            for k in range(n):
                self.store(st, Ptr(p.obj, BV(self.add(p.off.bits, BV.const(k, 64).bits))), BV(list(v.bits[:8])), 1, i)
            if i.d['bits']: regs[i.id] = p
            return None
        if name.startswith('llvm.memcpy') or name.startswith('llvm.memmove') or name in ('memcpy', 'memmove'):
            d, s, n = args[0], args[1], args[2].concrete()
            if n is None:
                st.trace.append(('memcpy-symbolic-size', repr(d), repr(s), self.V.show_bv(args[2])[:3], i.loc))
                if isinstance(d, Ptr) and d.obj in st.mem.objs:
                    st.mem.objs[d.obj] = [[T(0)] * 8 for _ in st.mem.objs[d.obj]]; st.mem.owned.add(d.obj)
                if i.d['bits']: regs[i.id] = d
                return None
            so, soff = self._cells(st, s, n, i, 'load')
            do, doff = self._cells(st, d, n, i, 'store')
            if so is None or do is None: raise Unmodelled('memcpy with symbolic offset at %s' % i.loc)
            src = [c if isinstance(c, tuple) else list(c) for c in st.mem.objs[so][soff:soff + n]]
            st.mem.wcells(do)[doff:doff + n] = src
            if i.d['bits']: regs[i.id] = d
            return None
        if name == 'memcmp':
            a, b, n = args[0], args[1], args[2].concrete()
            if n is None: raise Unmodelled('memcmp with symbolic size at %s' % i.loc)
            x = self.load(st, a, n, i); y = self.load(st, b, n, i)
            d = [bxor(p, q) for p, q in zip(x.bits, y.bits)]
            if all(is_const(z) for z in d):
                xa = x.concrete(); ya = y.concrete()
                xb = xa.to_bytes(n, 'little'); yb = ya.to_bytes(n, 'little')
                regs[i.id] = BV.const(((xb > yb) - (xb < yb)) & 0xffffffff, 32)
            else:
                dd = 0
                for z in d: dd |= deps(z)
                r = BV([T(dd)] * 32); r.zero_iff = ('bits', d)
                regs[i.id] = r
            return None
        if name in self.P.defined and getattr(self, 'tag_consumer', None) is not None and any(isinstance(a, Tag) and a.kind in ('word', 'separator') for a in args):
            # a library function that consumes an opaque string token (the phrase writer, whatever it is called): summarised by the harness
            r = self.tag_consumer(self, st, args, i)
            if i.d['bits']: regs[i.id] = r
            return None
        if name in self.P.defined:
            g = self.P.defined[name]
            for n, prm in enumerate(g.params):
                if prm.get('byval') and n < len(args) and isinstance(args[n], Ptr) and args[n].obj in st.mem.objs and args[n].coff() is not None:
                    # pass-by-value: the callee works on a private copy
                    st.nalloca += 1
                    cp = 'a:%s:byval%d:%d' % (base_name(name), n, st.nalloca)
                    src = st.mem.objs[args[n].obj][args[n].coff():args[n].coff() + prm['byval']]
                    st.mem.objs[cp] = [c if isinstance(c, tuple) else list(c) for c in src]; st.mem.owned.add(cp)
                    args[n] = Ptr(cp, 0)
            outs = self.run_function(g, args, st, depth + 1)
            if len(outs) == 1:
                # adopt the callee's final state (same object: state is mutated in place unless forked)
                o = outs[0]
                if o.state is not st:
                    st.mem = o.state.mem; st.cons = o.state.cons; st.trace = o.state.trace; st.events = o.state.events; st.nalloca = o.state.nalloca
                if i.d['bits']: regs[i.id] = o.ret
                return None
            if not outs:
                raise Unmodelled('call to %s has no feasible outcome at %s' % (name, i.loc))
            return ('multi', outs)
        if i.d.get('noreturn') or name in ('__assert_fail', 'abort'):
            # assertion failure / abort: this partition does not return
            st.events.append(('abort', name, i.loc))
            return ('abort',)
        raise Unmodelled('call to unmodelled external %s at %s' % (name, i.loc))
