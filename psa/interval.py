"""Interval abstract interpreter for small scalar functions (used for the birthday arithmetic, C11).
A value is (lo, hi) over unsigned w-bit integers; every input in the interval is covered at once. Branches whose condition the intervals
do not decide are explored both ways and the results joined (interval hull), so the answer is always sound."""
from .frontend import AnalysisBroken


class IUnmodelled(AnalysisBroken):
    pass


def full(w):
    return (0, (1 << w) - 1)


class IntervalInterp:
    def __init__(self, P, max_paths=64, fields=None):
        self.P = P; self.max_paths = max_paths
        self.fields = fields or {}      # (argument number, byte offset) -> interval of the scalar field loaded from that parameter's pointee

    def run(self, f, args):
        """args: list of (lo, hi); returns (lo, hi) hull of all return values, and the list of per-path results"""
        self.paths = 0
        res = self._run(f, list(args), 0)
        lo = min(r[0] for r in res); hi = max(r[1] for r in res)
        return (lo, hi), res

    def _val(self, f, env, args, v, w=None):
        k = v['k']
        if k == 'c': return (v['v'], v['v'])
        if k == 'null': return (0, 0)
        if k == 'i': return env[v['id']]
        if k == 'a': return args[v['n']]
        raise IUnmodelled('interval domain: operand %s' % k)

    def _val_ptr(self, f, env, args, v):
        if v['k'] == 'a' and isinstance(args[v['n']], tuple) and args[v['n']][0] == 'ptr': return args[v['n']]
        if v['k'] == 'i':
            x = env.get(v['id'])
            if isinstance(x, tuple) and x and x[0] == 'ptr': return x
        return None

    def _run(self, f, args, depth, mem=None):
        """per-path results of f: list of return intervals; with mem (the caller's local memory cells, for out-parameters) list of (return interval, memory cells at the return)"""
        if depth > 4: raise IUnmodelled('interval domain: call depth')
        out = []
        env = dict(mem) if mem else {}
        self._from(f, args, env, 0, None, out, depth)
        if mem is None: return [r for r, _ in out]
        return out

    def _from(self, f, args, env, bb, prev, out, depth, start=0):
        steps = 0
        while True:
            steps += 1
            if steps > 10000: raise IUnmodelled('interval domain: loop in %s' % f.name)
            blk = f.blocks[bb]
            if start == 0:
                new = {}
                for i in blk:
                    if i.op != 'phi': break
                    for v, pb in i.d['incoming']:
                        if pb == prev: new[i.id] = self._val(f, env, args, v)
                env.update(new)
            nxt = None
            for idx_, i in enumerate(blk):
                if idx_ < start: continue
                if i.op == 'phi' or self.P.is_dbg(i): continue
                if i.op == 'call' and (self.P.call_target(i)[0] == 'direct' and self.P.call_target(i)[1].startswith('llvm.lifetime')): continue
                op = i.op; w = i.d['bits']
                V = lambda k: self._val(f, env, args, i.ops[k])
                M = (1 << w) - 1 if w else 0
                if op in ('add', 'sub', 'mul', 'udiv', 'urem', 'and', 'or', 'xor', 'shl', 'lshr'):
                    a, b = V(0), V(1)
                    if op == 'sub':
                        if a[0] >= b[1]: r = (a[0] - b[1], a[1] - b[0])
                        elif a[1] < b[0]: r = (a[0] - b[1] + (1 << w), a[1] - b[0] + (1 << w))       # wraps for every pair of values
                        else: r = full(w)
                    elif op == 'add':
                        r = (a[0] + b[0], a[1] + b[1]) if a[1] + b[1] <= M else full(w)
                    elif op == 'mul':
                        r = (a[0] * b[0], a[1] * b[1]) if a[1] * b[1] <= M else full(w)
                    elif op == 'udiv':
                        if b[0] == 0: raise IUnmodelled('division by an interval containing 0 at %s' % i.loc)
                        r = (a[0] // b[1], a[1] // b[0])
                    elif op == 'urem':
                        if b[0] == b[1] and b[0] > 0 and a[0] // b[0] == a[1] // b[0]: r = (a[0] % b[0], a[1] % b[0])
                        elif b[0] > 0: r = (0, min(a[1], b[1] - 1))
                        else: raise IUnmodelled('urem by 0 at %s' % i.loc)
                    elif op == 'and':
                        if a[0] == a[1] and b[0] == b[1]: r = (a[0] & b[0],) * 2
                        else:
                            if a[0] == a[1]: a, b = b, a
                            if b[0] == b[1] and (b[0] + 1) & b[0] == 0:       # mask 2^k - 1
                                m = b[0]; k = m.bit_length()
                                if a[1] <= m: r = a
                                elif (a[0] >> k) == (a[1] >> k): r = (a[0] & m, a[1] & m)
                                else: r = (0, m)
                            else: r = (0, min(a[1], b[1]))
                    elif op == 'or':
                        if a[0] == a[1] and b[0] == b[1]: r = (a[0] | b[0],) * 2
                        elif w == 1: r = (max(a[0], b[0]), max(a[1], b[1]))
                        else: r = (max(a[0], b[0]), min(M, (1 << max(a[1].bit_length(), b[1].bit_length())) - 1))
                    elif op == 'xor':
                        if a[0] == a[1] and b[0] == b[1]: r = (a[0] ^ b[0],) * 2
                        elif w == 1 and b == (1, 1): r = (1 - a[1], 1 - a[0])
                        else: r = (0, (1 << max(a[1].bit_length(), b[1].bit_length())) - 1)
                    elif op == 'shl':
                        if b[0] == b[1] and (a[1] << b[0]) <= M: r = (a[0] << b[0], a[1] << b[0])
                        else: r = full(w)
                    elif op == 'lshr':
                        if b[0] == b[1]: r = (a[0] >> b[0], a[1] >> b[0])
                        else: r = (0, a[1])
                    env[i.id] = r
                elif op in ('zext', 'bitcast'):
                    env[i.id] = self._val_ptr(f, env, args, i.ops[0]) or V(0)
                elif op == 'trunc':
                    a = V(0)
                    if a[1] <= M: env[i.id] = a
                    elif (a[0] >> w) == (a[1] >> w): env[i.id] = (a[0] & M, a[1] & M)
                    else: env[i.id] = full(w)
                elif op == 'sext':
                    a = V(0); sb = i.d['src_bits']
                    if a[1] < (1 << (sb - 1)): env[i.id] = a
                    else: raise IUnmodelled('sext of possibly negative interval at %s' % i.loc)
                elif op == 'icmp':
                    a, b = V(0), V(1); p = i.d['pred']; ob = i.d['op_bits']
                    if (isinstance(a, tuple) and a and a[0] == 'ptr') or (isinstance(b, tuple) and b and b[0] == 'ptr'):
                        # a pointer argument of the harness (a valid object) compared with NULL, e.g. assert(seed != NULL)
                        other = b if (isinstance(a, tuple) and a and a[0] == 'ptr') else a
                        if other != (0, 0) or p not in ('eq', 'ne'): raise IUnmodelled('interval domain: pointer comparison at %s' % i.loc)
                        env[i.id] = (1, 1) if p == 'ne' else (0, 0)
                        continue
                    t = fl = False
                    if p in ('slt', 'sle', 'sgt', 'sge'):
                        H = 1 << (ob - 1)
                        def sgn(x):
                            # interval of signed values, or None when it straddles the sign boundary
                            if x[1] < H: return x
                            if x[0] >= H: return (x[0] - 2 * H, x[1] - 2 * H)
                            return None
                        sa_, sb_ = sgn(a), sgn(b)
                        if sa_ is None or sb_ is None:
                            p = None          # undecided: both outcomes are explored (sound)
                        else:
                            a, b = sa_, sb_
                            p = {'slt': 'ult', 'sle': 'ule', 'sgt': 'ugt', 'sge': 'uge'}[p]      # same ordering formulas on the signed values
                    if p is None: pass
                    elif p == 'eq': t = a[0] == a[1] == b[0] == b[1]; fl = a[1] < b[0] or b[1] < a[0]
                    elif p == 'ne': fl = a[0] == a[1] == b[0] == b[1]; t = a[1] < b[0] or b[1] < a[0]
                    elif p == 'ult': t = a[1] < b[0]; fl = a[0] >= b[1]
                    elif p == 'ule': t = a[1] <= b[0]; fl = a[0] > b[1]
                    elif p == 'ugt': t = a[0] > b[1]; fl = a[1] <= b[0]
                    elif p == 'uge': t = a[0] >= b[1]; fl = a[1] < b[0]
                    env[i.id] = (1, 1) if t else ((0, 0) if fl else (0, 1))
                elif op == 'select':
                    c = V(0)
                    if c == (1, 1): env[i.id] = V(1)
                    elif c == (0, 0): env[i.id] = V(2)
                    else:
                        a, b = V(1), V(2); env[i.id] = (min(a[0], b[0]), max(a[1], b[1]))
                elif op == 'br':
                    if len(i.ops) == 1: nxt = f.succs[bb][0]
                    else:
                        c = V(0)
                        if c == (1, 1): nxt = f.succs[bb][0]
                        elif c == (0, 0): nxt = f.succs[bb][1]
                        else:
                            self.paths += 1
                            if self.paths > self.max_paths: raise IUnmodelled('interval domain: too many undecided branches in %s' % f.name)
                            for s in f.succs[bb]:
                                self._from(f, args, dict(env), s, bb, out, depth)
                            return
                elif op == 'ret':
                    out.append((V(0) if i.ops else (0, 0), {k_: v_ for k_, v_ in env.items() if isinstance(k_, tuple) and k_[0] == 'm'})); return
                elif op == 'alloca':
                    env[i.id] = ('ptr', ('loc', f.name, i.id, depth), 0)
                elif op == 'bitcast':
                    env[i.id] = self._val(f, env, args, i.ops[0])
                elif op == 'store':
                    b = self._val_ptr(f, env, args, i.ops[1])
                    if b is None or not (isinstance(b[1], tuple) and b[1][0] == 'loc'): raise IUnmodelled('interval domain: store at %s' % i.loc)
                    env[('m', b[1], b[2])] = V(0)
                elif op == 'load' and (lambda b_: b_ is not None and isinstance(b_[1], tuple) and b_[1][0] == 'loc')(self._val_ptr(f, env, args, i.ops[0])):
                    b = self._val_ptr(f, env, args, i.ops[0])
                    if ('m', b[1], b[2]) not in env: raise IUnmodelled('interval domain: load of an unwritten local at %s' % i.loc)
                    env[i.id] = env[('m', b[1], b[2])]
                elif op == 'getelementptr' and not i.d['var_steps']:
                    b = self._val_ptr(f, env, args, i.ops[0])
                    env[i.id] = ('ptr', b[1], b[2] + i.d['const_off']) if b else None
                elif op == 'load':
                    b = self._val_ptr(f, env, args, i.ops[0])
                    if b is None or (b[1], b[2]) not in self.fields:
                        raise IUnmodelled('interval domain: load at %s' % i.loc)
                    env[i.id] = self.fields[(b[1], b[2])]
                elif op == 'call':
                    t = self.P.call_target(i)
                    if t[0] == 'direct' and t[1] in self.P.defined:
                        cargs = [V(k) for k in range(len(i.ops))]
                        if any(isinstance(a_, tuple) and a_ and a_[0] == 'ptr' and isinstance(a_[1], tuple) and a_[1][0] == 'loc' for a_ in cargs):
                            # the callee receives the address of a local (an out-parameter): one continuation per path of the callee, each with the memory it left
                            mem_ = {k_: v_ for k_, v_ in env.items() if isinstance(k_, tuple) and k_[0] == 'm'}
                            res_ = self._run(self.P.defined[t[1]], cargs, depth + 1, mem=mem_)
                            for (rv_, m_) in res_:
                                e2 = dict(env); e2.update(m_); e2[i.id] = rv_
                                self._from(f, args, e2, bb, prev, out, depth, start=idx_ + 1)
                            return
                        r = self._run(self.P.defined[t[1]], cargs, depth + 1)
                        env[i.id] = (min(x[0] for x in r), max(x[1] for x in r))
                    else:
                        raise IUnmodelled('interval domain: call to %s at %s' % (t, i.loc))
                else:
                    raise IUnmodelled('interval domain: opcode %s at %s' % (op, i.loc))
            if nxt is None:
                raise IUnmodelled('fell off block in %s' % f.name)
            prev, bb = bb, nxt; start = 0
