"""Front end: /repo working tree -> compilation database -> LLVM IR -> facts JSON.

Nothing is cached between runs: every invocation re-reads /repo (or the tree
given by POLYSEED_TREE, used only by the self-tests on scratch copies).
"""
import json, os, shlex, subprocess, sys, tempfile, shutil, atexit, hashlib
from concurrent.futures import ThreadPoolExecutor

VERIF = os.path.dirname(os.path.dirname(os.path.abspath(__file__)))
IRFACTS = os.path.join(VERIF, 'build', 'irfacts')
CLANG = 'clang-14'


class AnalysisBroken(Exception):
    """An anchor vanished / the front end failed: exit 2, never pass or violation."""


def repo_root():
    return os.environ.get('POLYSEED_TREE', '/repo')


_scratch = None


def scratch():
    global _scratch
    if _scratch is None:
        _scratch = tempfile.mkdtemp(prefix='psa-')
        atexit.register(lambda: shutil.rmtree(_scratch, ignore_errors=True))
    return _scratch


def run(cmd, **kw):
    p = subprocess.run(cmd, stdout=subprocess.PIPE, stderr=subprocess.PIPE, text=True, **kw)
    if p.returncode != 0:
        raise AnalysisBroken('command failed: %s\n%s' % (' '.join(cmd), p.stderr[-2000:]))
    return p.stdout


def compile_db():
    """cmake configure only; returns {target_define: [(file, flags)]} for library units."""
    root = repo_root()
    d = os.path.join(scratch(), 'cfg')
    if os.path.exists(d):
        shutil.rmtree(d)
    run(['cmake', '-S', root, '-B', d, '-DCMAKE_EXPORT_COMPILE_COMMANDS=ON'])
    db = json.load(open(os.path.join(d, 'compile_commands.json')))
    units = {}
    for e in db:
        f = os.path.realpath(e['file'])
        rel = os.path.relpath(f, os.path.realpath(root))
        if rel.startswith('tests' + os.sep):
            continue
        args = shlex.split(e['command'])
        keep = []
        it = iter(args[1:])
        for a in it:
            if a in ('-o', '-c'):
                if a == '-o':
                    next(it)
                continue
            if a == e['file'] or os.path.realpath(a) == f:
                continue
            if a.startswith(('-D', '-I', '-std=', '-f', '-U', '-iquote', '-isystem', '-m', '-include')):
                keep.append(a)
        kind = 'H' if '-DPOLYSEED_SHARED' in keep else ('S' if '-DPOLYSEED_STATIC' in keep else '?')
        units.setdefault(kind, {})[rel] = keep
    # cover what the build covers: every .c under src/ must be in the database and vice versa
    srcdir = os.path.join(root, 'src')
    on_disk = sorted('src/' + f for f in os.listdir(srcdir) if f.endswith('.c'))
    for kind, u in units.items():
        indb = sorted(u)
        if indb != on_disk:
            raise AnalysisBroken('sources on disk and in the %s build differ: only on disk %s, only in build %s' % (
                kind, sorted(set(on_disk) - set(indb)), sorted(set(indb) - set(on_disk))))
    if 'S' not in units or 'H' not in units:
        raise AnalysisBroken('expected a POLYSEED_STATIC and a POLYSEED_SHARED library target, found %s' % sorted(units))
    return units


_db = None


def get_db():
    global _db
    if _db is None:
        _db = compile_db()
    return _db


def config_flags(cfg):
    """cfg: 3 letters, e.g. 'NsS': N|D (NDEBUG / assertions), s|u (char signedness), S|H (static/shared)."""
    nd, ch, kind = cfg
    fl = []
    fl.append('-DNDEBUG' if nd == 'N' else '-UNDEBUG')
    fl.append('-fsigned-char' if ch == 's' else '-funsigned-char')
    return fl, kind


def build_module(cfg='NsS', mem2reg=True):
    """Compile all library units for configuration cfg, link, and dump facts. Returns facts dict."""
    if not os.path.exists(IRFACTS):
        raise AnalysisBroken('build/irfacts missing: run MANIFEST.setup_cmd (make -C /verif/tools)')
    db = get_db()
    extra, kind = config_flags(cfg)
    units = db[kind]
    out = os.path.join(scratch(), 'ir-' + cfg)
    os.makedirs(out, exist_ok=True)
    root = repo_root()

    def comp(item):
        rel, flags = item
        fl = [a for a in flags if a not in ('-DNDEBUG',) and not a.startswith('-O')]
        ll = os.path.join(out, rel.replace('/', '_') + '.bc')
        cmd = [CLANG] + fl + extra + ['-O0', '-Xclang', '-disable-O0-optnone', '-g', '-w', '-c', '-emit-llvm',
                                       os.path.join(root, rel), '-o', ll]
        run(cmd, cwd=root)
        return ll

    with ThreadPoolExecutor(max_workers=16) as ex:
        bcs = list(ex.map(comp, sorted(units.items())))
    linked = os.path.join(out, 'lib.bc')
    run(['llvm-link-14'] + bcs + ['-o', linked])
    if mem2reg:
        m2 = os.path.join(out, 'lib.m2r.bc')
        run(['opt-14', '-passes=sroa', linked, '-o', m2])
        linked = m2
    facts = os.path.join(out, 'facts.json')
    with open(facts, 'w') as fo:
        p = subprocess.run([IRFACTS, linked], stdout=fo, stderr=subprocess.PIPE, text=True)
    if p.returncode != 0:
        raise AnalysisBroken('irfacts failed: ' + p.stderr[-2000:])
    d = json.load(open(facts))
    d['_cfg'] = cfg
    d['_units'] = sorted(units)
    d['_bc'] = linked
    return d


def source_digest():
    """sha256 over the library sources analysed (recorded in evidence)."""
    root = repo_root()
    h = hashlib.sha256()
    n = 0
    for sub in ('src', 'include'):
        for f in sorted(os.listdir(os.path.join(root, sub))):
            p = os.path.join(root, sub, f)
            if os.path.isfile(p):
                h.update(f.encode()); h.update(open(p, 'rb').read()); n += 1
    return h.hexdigest(), n
