"""Bitflow exit summaries of whole API functions (string helpers and injected functions summarised):
keygen (C04), crypt (C12), features (C10), create / inject (C18), L-INIT (C13), decoders / load (C02-6, C05, C06-4, C09-2, C10-1, C15)."""
from .frontend import AnalysisBroken
from .bitflow import *
from .harness import *
from .ir import DATA_STRUCT, DEP_STRUCT, base_name
from .rules_bits import ref_layout, cfgs_for, GF_BITS


def loc_of(f):
    return '%s:%s' % ((f.file or '').replace('/repo/', ''), f.line)


def mk_interp(P, alloc='both', extra=None):
    summ = {}
    I = Interp(P, summaries=summ)
    d = Deps(I, alloc_fails=alloc); d.install(summ)
    string_summaries(I, summ)
    # observe the precondition of the field arithmetic at every evaluation: all 16 coefficients are < 2^11
    for ev in P.fns('gf_poly_eval'):
        def watch(I_, st, args, inst, ev=ev):
            p = args[0]
            hi = []
            if isinstance(p, Ptr) and p.obj in st.mem.objs and p.coff() is not None:
                for k in range(16):
                    c = get(st, p.obj, p.coff() + 8 * k, 8)
                    hi += [st.cons.reduce(b) for b in c.bits[GF_BITS:]]
            st.trace.append(('gf_poly_eval-call', all(b == 0 for b in hi) and bool(hi), inst.loc))
            outs = I_.run_function(ev, args, st, 2)
            return outs if len(outs) != 1 else _adopt(st, outs[0])
        summ[ev.name] = watch
    if extra: summ.update(extra)
    return I


def _adopt(st, o):
    if o.state is not st:
        st.mem = o.state.mem; st.cons = o.state.cons; st.trace = o.state.trace; st.events = o.state.events; st.nalloca = o.state.nalloca
    return o.ret


def p11(rep, o, where, cons, key):
    ev = [t for t in o.state.trace if t[0] == 'gf_poly_eval-call']
    bad = [t for t in ev if not t[1]]
    rep.check(not bad, '%s: every polynomial evaluation receives coefficients < 2^11 (precondition of the GF(2048) arithmetic), %d evaluation(s)' % (cons, len(ev)),
              bad[0][2] if bad else where, cons, detail=[t[2] for t in bad], key=key + '|p11')


def pb_records(o):
    return [t[1] for t in o.state.trace if t[0] == 'pbkdf2']


# =====================================================================  C04 keygen
def keygen(ctx, rep):
    for cfg in cfgs_for(ctx):
        P = ctx.prog(cfg)
        if cfg not in rep.configs: rep.configs.append(cfg)
        f = P.fn('polyseed_keygen'); w = loc_of(f)
        rep.rule('KEYGEN', 'polyseed_keygen on a fully symbolic seed object, coin, key_size and key_out: exactly one dep:pbkdf2_sha256 call '
                 'on the single path; pw = &seed->secret[0], pwlen = 32, salt = 32-byte local holding "POLYSEED key" 00 FF FF FF || LE32(coin) '
                 '|| LE32(birthday) || LE32(features) || 00 00 00 00 (bit for bit), saltlen = 32, iterations = 10000, key = key_out, '
                 'keylen = key_size; key_out is neither read nor written by the library; the seed is not modified; the arguments depend on '
                 'nothing but (secret, birthday, features, coin)')
        I = mk_interp(P); st = State()
        seed, fo = symbolic_seed(I, st, canonical=False)
        st.mem.new('key_out', 64, 0)
        for k in range(64): put(st, 'key_out', k, I.V.bv('key_out[%d]' % k, 8))
        coin = I.V.bv('coin', 32); ks = I.V.bv('key_size', 64)
        before = {k: list(v) for k, v in st.mem.objs.items()}
        outs = I.run(f, [seed, coin, ks, Ptr('key_out', 0)], st)
        rep.check(len(outs) >= 1, 'keygen returns (at least one non-aborting partition)', w, f.name, key='KEYGEN|paths')
        rep.info.setdefault('assert_partitions', {})[cfg + ':keygen'] = len(I.aborts)
        for o in outs:
            _keygen_partition(P, I, rep, f, w, o, fo, coin, ks, before)


def _keygen_partition(P, I, rep, f, w, o, fo, coin, ks, before):
        R = lambda bits: [o.state.cons.reduce(b) for b in bits]
        recs = pb_records(o)
        rep.check(len(recs) == 1, 'exactly one dep:pbkdf2_sha256 call (found %d)' % len(recs), w, f.name, key='KEYGEN|count')
        ncalls = sum(1 for t in o.state.trace if t[0] in ('pbkdf2', 'randbytes', 'time', 'alloc', 'free', 'u8_nfc', 'u8_nfkd'))
        rep.check(ncalls == len(recs), 'no other injected function is called by keygen', w, f.name, detail=[t[0] for t in o.state.trace], key='KEYGEN|other-deps')
        if len(recs) != 1: return
        r = recs[0]; so = fo['secret'][0]
        rep.check(r['_pw'] == Ptr('seed', so), 'password pointer = &seed->secret[0]', r['loc'], 'pbkdf2 argument pw', detail=r['pw'], key='KEYGEN|pw')
        rep.check(r['_pwlen'].concrete() == fo['secret'][1] == 32, 'password length = 32 (the whole zero-padded secret buffer)', r['loc'],
                  'pbkdf2 argument pwlen', detail=r['pwlen'], key='KEYGEN|pwlen', sample={'pwlen': r['pwlen']})
        rep.check(r['saltlen'] == 32, 'salt length = 32', r['loc'], 'pbkdf2 argument saltlen', detail=r['saltlen'], key='KEYGEN|saltlen')
        rep.check(r['iterations'] == 10000, 'iterations = 10000', r['loc'], 'pbkdf2 argument iterations', detail=r['iterations'], key='KEYGEN|iter')
        rep.check(r['_key'] == Ptr('key_out', 0), 'key pointer = key_out (unaltered)', r['loc'], 'pbkdf2 argument key', detail=r['key'], key='KEYGEN|key')
        rep.check(R(r['_keylen'].bits) == R(ks.bits), 'key length = key_size (unaltered)', r['loc'], 'pbkdf2 argument keylen', detail=str(r['keylen'])[:200], key='KEYGEN|keylen')
        sb = r.get('_salt_bytes')
        if sb is None:
            rep.fail('salt is a readable 32-byte object', r['loc'], 'pbkdf2 argument salt', key='KEYGEN|salt')
        else:
            exp = []
            for c in b'POLYSEED key\x00\xff\xff\xff': exp += [(c >> j) & 1 for j in range(8)]
            exp += coin.bits
            exp += [I.V.bit('birthday.%d' % j) for j in range(32)]
            exp += [I.V.bit('features.%d' % j) for j in range(32)]
            exp += [0] * 32
            for k in range(32):
                got = R(sb.bits[8 * k:8 * k + 8]); wantb = R(exp[8 * k:8 * k + 8])
                rep.check(got == wantb, 'salt byte %d = %s' % (k, [I.V.show(b) for b in wantb]), r['loc'], 'keygen salt byte %d' % k,
                          detail={'found': [I.V.show(b) for b in got]}, sample={'byte': k, 'bits': [I.V.show(b) for b in got]} if k in (0, 12, 13, 16, 20, 24, 28) else None,
                          key='KEYGEN|salt%d' % k)
        acc = [a for a in I.accesses if a[2] == 'key_out']
        rep.check(not acc and o.state.mem.objs['key_out'] == before['key_out'], 'key_out is neither read nor written by the library', w, f.name,
                  detail=acc[:3], key='KEYGEN|key-untouched')
        rep.check(o.state.mem.objs['seed'] == before['seed'], 'the seed object is not modified', w, f.name, key='KEYGEN|seed-const')
        sw = [a for a in I.accesses if a[2] == 'seed' and a[5] == 'store']
        rep.check(not sw, 'no store into the seed object', w, f.name, detail=sw[:3])
        rep.check(not o.state.events, 'no uninitialised / out-of-bounds access', w, f.name, detail=o.state.events[:3], key='KEYGEN|events')


# =====================================================================  C12 crypt
def crypt(ctx, rep):
    for cfg in cfgs_for(ctx):
        P = ctx.prog(cfg)
        if cfg not in rep.configs: rep.configs.append(cfg)
        f = P.fn('polyseed_crypt'); w = loc_of(f)
        rep.rule('CRYPT', 'polyseed_crypt on a canonical symbolic seed with the KDF output as 256 fresh symbols mask[k].j: exactly one KDF call '
                 '(pw = the buffer filled by utf8_nfkd_lazy(password,.), pwlen = the value it returned, salt = "POLYSEED mask" 00 FF FF, saltlen 16, '
                 '10000 iterations, 32-byte output); secret\'[i] = secret[i]^mask[i] (i<18), secret\'[18] = (secret[18]^mask[18]) & 0x3F, padding '
                 'unchanged (0); features\' = features^16; birthday unchanged; checksum\' = Horner form of the packed result; the password is '
                 'read only through utf8_nfkd_lazy; applying the transformer twice is the identity; poly, mask and the password buffer are wiped')
        I = mk_interp(P); st = State()
        seed, fo = symbolic_seed(I, st, canonical=True)
        st.mem.new('password', 8, 0)
        before = {k: list(v) for k, v in st.mem.objs.items()}
        outs = I.run(f, [seed, Ptr('password', 0)], st)
        rep.check(len(outs) >= 1, 'crypt returns (at least one non-aborting partition)', w, f.name, key='CRYPT|paths')
        rep.info.setdefault('assert_partitions', {})[cfg + ':crypt'] = len(I.aborts)
        for o in outs:
            _crypt_partition(P, I, rep, f, w, o, fo, seed, before)
        if cfg[0] == 'D':
            def probe(val):
                I4 = mk_interp(P); st4 = State(); seed4, _ = symbolic_seed(I4, st4, canonical=True); st4.mem.new('password', 8, 0)
                for k, b in enumerate(I4.V.bv('nfkd.len', 64).bits): st4.cons.add(b, (val >> k) & 1)
                return I4, I4.run(f, [seed4, Ptr('password', 0)], st4)
            assert_probe(ctx, rep, f, 'password', probe)


def assert_probe(ctx, rep, f, what, probe):
    """assertion-enabled configurations: the library may assert the normaliser's contract (length < POLYSEED_STR_SIZE) and non-NULL arguments, nothing
    narrower. Probed at the boundary lengths with everything else symbolic."""
    rep.rule('ASSERT-1', 'builds with assertions: with valid (non-NULL) arguments and the injected normaliser reporting a length of 0, 1 or POLYSEED_STR_SIZE-1 '
             '(empty, one-byte and longest admissible %s; all other inputs symbolic) no assertion of the function can fail - the only input contract asserted '
             'is the documented one' % what)
    size = ctx.tables().str_size()
    for val in (0, 1, size - 1):
        I4, outs4 = probe(val)
        rep.check(bool(outs4) and not I4.aborts, '%s: no assertion can fail when the normalised %s has length %d' % (base_name(f.name), what, val), I4.aborts[0][0] if I4.aborts else loc_of(f),
                  '%s with normalised length %d' % (base_name(f.name), val), detail=[str(a)[:200] for a in I4.aborts[:2]], sample={'function': base_name(f.name), 'length': val, 'aborting_partitions': len(I4.aborts)},
                  key='ASSERT-1|%s|%d' % (base_name(f.name), val))


def _crypt_partition(P, I, rep, f, w, o, fo, seed, before):
        R = lambda bits: [o.state.cons.reduce(b) for b in bits]
        recs = pb_records(o)
        rep.check(len(recs) == 1, 'exactly one dep:pbkdf2_sha256 call', w, f.name, key='CRYPT|count')
        if len(recs) != 1: return
        r = recs[0]
        lazy = [t for t in o.state.trace if t[0] == 'utf8_nfkd_lazy']
        rep.check(len(lazy) == 1 and lazy[0][1] == repr(Ptr('password', 0)), 'the password reaches the library only through one utf8_nfkd_lazy(password, buf) call',
                  w, f.name, detail=lazy, key='CRYPT|nfkd')
        if lazy:
            rep.check(r['pw'] == lazy[0][2], 'KDF password = the buffer utf8_nfkd_lazy filled', r['loc'], 'pbkdf2 argument pw', detail=(r['pw'], lazy[0][2]), key='CRYPT|pw')
        rep.check(R(r['_pwlen'].bits) == R(I.V.bv('nfkd.len', 64).bits), 'KDF password length = the length utf8_nfkd_lazy returned (terminator excluded)', r['loc'],
                  'pbkdf2 argument pwlen', detail=str(r['pwlen'])[:200], key='CRYPT|pwlen')
        rep.check(r['saltlen'] == 16 and r['iterations'] == 10000 and r['keylen'] == 32, 'saltlen 16, iterations 10000, keylen 32', r['loc'], 'pbkdf2 arguments',
                  detail={k: r[k] for k in ('saltlen', 'iterations', 'keylen')}, key='CRYPT|consts')
        sb = r.get('_salt_bytes')
        exp = []
        for c in b'POLYSEED mask\x00\xff\xff': exp += [(c >> j) & 1 for j in range(8)]
        rep.check(sb is not None and sb.bits == exp, 'salt = "POLYSEED mask" 00 FF FF', r['loc'], 'crypt salt', detail=I.V.show_bv(sb)[:16] if sb else None, key='CRYPT|salt')
        acc = [a for a in I.accesses if a[2] == 'password']
        rep.check(not acc, 'no direct read or write of the password bytes', w, f.name, detail=acc[:3], key='CRYPT|pw-access')
        so = fo['secret'][0]
        for k in range(32):
            got = get(o.state, 'seed', so + k, 1).bits
            if k < 18: e = [bxor(I.V.bit('secret[%d].%d' % (k, j)), I.V.bit('mask[%d].%d' % (k, j))) for j in range(8)]
            elif k == 18: e = [bxor(I.V.bit('secret[18].%d' % j), I.V.bit('mask[18].%d' % j)) for j in range(6)] + [0, 0]
            else: e = [0] * 8
            rep.check(got == e, 'secret\'[%d] = %s' % (k, [I.V.show(b) for b in e]), w, 'crypt secret byte %d' % k, detail={'found': [I.V.show(b) for b in got]},
                      sample={'byte': k, 'bits': [I.V.show(b) for b in got]} if k in (0, 18, 19) else None, key='CRYPT|secret%d' % k)
        ft = get(o.state, 'seed', fo['features'][0], 4).bits
        ef = [I.V.bit('features.%d' % j) for j in range(4)] + [bxor(I.V.bit('features.4'), 1)] + [0] * 27
        rep.check(ft == ef, 'features\' = features ^ 16 (only the encrypted flag toggles)', w, 'crypt features', detail=[I.V.show(b) for b in ft[:8]], key='CRYPT|features')
        bd = get(o.state, 'seed', fo['birthday'][0], 4).bits
        rep.check(bd == [I.V.bit('birthday.%d' % j) for j in range(10)] + [0] * 22, 'birthday unchanged', w, 'crypt birthday', key='CRYPT|birthday')
        # checksum' = eval(pack(seed')) with coeff[0] = 0
        I2 = Interp(P, I.V); st2 = o.state.clone(); st2.mem.new('p2', 128, 0)
        o2 = I2.run(P.fn('polyseed_data_to_poly'), P.by_type(P.fn('polyseed_data_to_poly'), seed=Ptr('seed', 0), poly=Ptr('p2', 0)), st2)[0]
        ev = I2.run(P.fns('gf_poly_eval')[0], P.by_type(P.fns('gf_poly_eval')[0], poly=Ptr('p2', 0)), o2.state)[0].ret
        ck = get(o.state, 'seed', fo['checksum'][0], 8)
        rep.check(ck.bits == ev.bits, 'checksum\' = evaluation of the re-packed data with a zero check word (so the result is checksum-valid)', w, 'crypt checksum',
                  detail=I.V.show_bv(ck)[:3], key='CRYPT|checksum')
        # wipes
        wz = [t for t in o.state.trace if t[0] == 'memzero']
        names = sorted(set(t[1].split(':')[2] if t[1].startswith('Ptr(a:') else t[1] for t in wz))
        rep.check(len(wz) >= 3, 'three temporaries wiped through dep:memzero', w, f.name, detail=names, sample=names, key='CRYPT|wipes')
        rep.check(not o.state.events, 'no uninitialised / out-of-bounds access', w, f.name, detail=o.state.events[:3], key='CRYPT|events')
        p11(rep, o, w, 'polyseed_crypt', 'CRYPT')
        # involution
        I3 = mk_interp(P); I3.V = I.V
        outs3 = I3.run(f, [seed, Ptr('password', 0)], o.state.clone())
        ok = len(outs3) >= 1
        if ok:
            for fld in ('birthday', 'features', 'secret', 'checksum'):
                o_, sz = fo[fld]
                a = get(outs3[0].state, 'seed', o_, sz).bits
                b = []
                for c in before['seed'][o_:o_ + sz]: b += c
                if fld == 'checksum':
                    continue
                rep.check(a == b, 'crypt(crypt(seed)) restores %s bit for bit (for every mask and seed)' % fld, w, 'crypt involution %s' % fld, key='CRYPT|involution-' + fld)
            # checksum after two applications = checksum of original data (which is eval(pack(seed)))
            I4 = Interp(P, I.V); st4 = State(); st4.mem.objs['seed'] = before['seed']; st4.mem.new('p4', 128, 0)
            o4 = I4.run(P.fn('polyseed_data_to_poly'), P.by_type(P.fn('polyseed_data_to_poly'), seed=Ptr('seed', 0), poly=Ptr('p4', 0)), st4)[0]
            ev4 = I4.run(P.fns('gf_poly_eval')[0], P.by_type(P.fns('gf_poly_eval')[0], poly=Ptr('p4', 0)), o4.state)[0].ret
            ck3 = get(outs3[0].state, 'seed', fo['checksum'][0], 8)
            rep.check(ck3.bits == ev4.bits, 'after two applications the check value is the one of the original data', w, 'crypt involution checksum', key='CRYPT|involution-checksum')
        else:
            rep.fail('second application single path', w, f.name)


# =====================================================================  C10 features
def features(ctx, rep):
    for cfg in cfgs_for(ctx):
        P = ctx.prog(cfg)
        if cfg not in rep.configs: rep.configs.append(cfg)
        fe = P.fn('polyseed_enable_features'); fs = feature_predicate(P)
        # the static consulted by the predicate
        I = Interp(P); st = State()
        outs = I.run(fs, [I.V.bv('f', 32)], st)
        gl = sorted(set(a[2] for a in I.accesses if a[2].startswith('g:')))
        rep.rule('FEAT-MASK', 'polyseed_enable_features(mask), mask fully symbolic: per partition on the three low mask bits the static ends as '
                 '15 ^ (mask & 7) and the return value is popcount(mask & 7); bits of mask above 2 influence nothing; the first write to the '
                 'static is the constant 15 (most recent call wins, nothing accumulates); bit 4 (encrypted) is never reserved, bit 3 always is; '
                 'the initial value of the static is 15')
        rep.check(len(gl) == 1, 'the predicate reads exactly one static', loc_of(fs), fs.name, detail=gl, key='FEAT-MASK|static')
        if len(gl) != 1: continue
        G = gl[0]
        g0 = get(st, G, 0, 4).concrete()
        rep.check(g0 == 15, 'initial reserved mask = 15 (user bits 0-2 and internal bit 3 reserved, encrypted bit supported)', loc_of(fs), G, detail=g0, key='FEAT-MASK|init')
        # one abstract run per value of the three low mask bits (concrete), all higher mask bits and the previous state symbolic
        for mv in range(8):
            I = Interp(P); st = State()
            I.global_obj(st, G[2:])
            put(st, G, 0, I.V.bv('old', 32))           # arbitrary previous state: must not matter
            m = BV([(mv >> j) & 1 for j in range(3)] + I.V.bv('mask.hi', 29).bits)
            try:
                outs = I.run(fe, [m], st)
            except RecursionError:
                raise AnalysisBroken('polyseed_enable_features does not terminate in the abstract domain for mask&7 = %d' % mv)
            rep.check(len(outs) >= 1, 'enable_features returns for mask&7 = %d' % mv, loc_of(fe), fe.name, key='FEAT-MASK|partitions')
            for o in outs:
                val = get(o.state, G, 0, 4); ret = o.ret
                ok = val.concrete() == 15 ^ mv and ret.concrete() == bin(mv).count('1')
                rep.check(ok, 'mask&7 = %d (higher mask bits and previous state arbitrary): reserved = %d, returns %d' % (mv, 15 ^ mv, bin(mv).count('1')), loc_of(fe), 'enable_features with mask&7=%d' % mv,
                          detail={'reserved': I.V.show_bv(val)[:6], 'ret': I.V.show_bv(ret)[:4]}, sample={'mask&7': mv, 'reserved': val.concrete(), 'returns': ret.concrete()},
                          key='FEAT-MASK|part%d' % mv)

        rep.rule('FEAT-PRED', 'polyseed_features_supported(f) == ((f & reserved) == 0) for each of the 8 reachable values of the static; '
                 'make_features(u) = u & 7; get_features(f, m) = f & m & 7; is_encrypted(f) = bit 4 of f; polyseed_get_feature / polyseed_is_encrypted '
                 'apply them to seed->features and touch nothing else')
        for mv in range(8):
            I = Interp(P); st = State()
            I.global_obj(st, G[2:]); put(st, G, 0, BV.const(15 ^ mv, 32))
            fbv = I.V.bv('f', 32)
            outs = I.run(fs, [fbv], st)
            res = 15 ^ mv
            want = [fbv.bits[j] for j in range(32) if (res >> j) & 1]
            ok = len(outs) >= 1
            if len(outs) == 1 and outs[0].ret.concrete() is None:
                r = outs[0].ret
                nzb = [b_ for b_ in r.bits if b_ != 0]
                if len(want) == 1 and r.bits[0] == bnot(want[0]) and all(b_ == 0 for b_ in r.bits[1:]): ok = True          # boolean "supported"
                elif sorted(map(repr, nzb)) == sorted(map(repr, want)): ok = True      # the offending bits themselves (zero = supported): the callers' reading is decided by the exit summaries
                else:
                    zi = r.zero_iff
                    ok = zi is not None and zi[0] == 'allzero' and sorted(map(repr, zi[1])) == sorted(map(repr, want))
            else:
                # partitioned form (early returns / per-bit tests): exactly one partition answers "supported", it is constrained by exactly
                # "every reserved bit of f is 0", and every other partition answers "not supported"
                yes = [o for o in outs if o.ret.concrete() == 1]; no = [o for o in outs if o.ret.concrete() == 0]
                ok = len(yes) == 1 and len(yes) + len(no) == len(outs)
                if ok:
                    C = yes[0].state.cons
                    ok = all(C.reduce(b) == 0 for b in want)
                    E = Constraints()
                    for b in want: E.add(b, 0)
                    ok = ok and all(E.reduce(mk(m_, c_)) == 0 for m_, c_ in C.rows.values())
            rep.check(ok, 'supported(f) iff f & %d == 0' % (15 ^ mv), loc_of(fs), 'features_supported with reserved=%d' % (15 ^ mv),
                      detail=str(outs[0].ret.zero_iff)[:200] if outs else None, key='FEAT-PRED|res%d' % mv)
        for f in P.fns('make_features'):
            I = Interp(P); u = I.V.bv('u', 32)
            o = I.run(f, [u], State())
            rep.check(len(o) == 1 and o[0].ret.bits == u.bits[:3] + [0] * 29, 'make_features(u) = u & 7', loc_of(f), f.name, key='FEAT-PRED|make')
        for f in P.fns('is_encrypted'):
            I = Interp(P); u = I.V.bv('f', 32)
            o = I.run(f, [u], State())
            rep.check(len(o) == 1 and o[0].ret.bits[0] == u.bits[4], 'is_encrypted(f) = bit 4', loc_of(f), f.name, key='FEAT-PRED|isenc')
        for f in P.fns('get_features'):
            for mv in range(8):
                I = Interp(P); u = I.V.bv('f', 32)
                hi = I.V.bv('mhi', 29)
                o = I.run(f, [u, BV([(mv >> j) & 1 for j in range(3)] + hi.bits)], State())
                exp = [u.bits[j] if (mv >> j) & 1 else 0 for j in range(3)] + [0] * 29
                rep.check(len(o) == 1 and o[0].ret.bits == exp, 'get_features(f, m) = f & m & 7 for m&7 = %d and any high bits of m' % mv, loc_of(f), f.name,
                          detail=I.V.show_bv(o[0].ret)[:5] if o else None, key='FEAT-PRED|get%d' % mv)
        for nm, chk in (('polyseed_get_feature', 'get'), ('polyseed_is_encrypted', 'enc')):
            f = P.fn(nm)
            I = mk_interp(P); st = State()
            seed, fo = symbolic_seed(I, st, canonical=False)
            before = list(st.mem.objs['seed'])
            if chk == 'get':
                o = I.run(f, [seed, BV.const(7, 32)], st)
                ok = len(o) == 1 and o[0].ret.bits == [I.V.bit('features.%d' % j) for j in range(3)] + [0] * 29
            else:
                o = I.run(f, [seed], st)
                ok = len(o) == 1 and o[0].ret.bits == [I.V.bit('features.4')] + [0] * 31
            rep.check(ok, '%s returns exactly the stored bits' % nm, loc_of(f), nm, detail=I.V.show_bv(o[0].ret)[:6] if o else None, key='FEAT-PRED|' + nm)
            rep.check(len(o) == 1 and o[0].state.mem.objs['seed'] == before, '%s does not modify the seed' % nm, loc_of(f), nm)


# =====================================================================  C18 create / inject
def create(ctx, rep):
    for cfg in cfgs_for(ctx):
        P = ctx.prog(cfg)
        if cfg not in rep.configs: rep.configs.append(cfg)
        f = P.fn('polyseed_create'); w = loc_of(f)
        status = P.enum('polyseed_status')
        rep.rule('CREATE', 'polyseed_create with symbolic features argument, the block from the injected allocator UNINIT, the CSPRNG output as '
                 'fresh symbols rand[k].j, the clock as fresh symbols: on the OK exit exactly one dep:randbytes(&seed->secret[0], 19) and one dep:time() call; '
                 'secret[k] = rand[k] (k<18), secret[18] = rand[18] & 0x3F, secret[19..31] = 0 (all 150 bits carried, nothing mixed in); features = '
                 'arg & 7; birthday = birthday_encode(time) < 2^10; checksum = Horner form of the packed seed; every byte of the block written, no '
                 'UNINIT byte read; *seed_out = block; exits: UNSUPPORTED before any allocation, MEMORY when the allocator fails')
        def bday(I, st, args, inst):
            st.trace.append(('birthday_encode', [st.cons.reduce(b) for b in args[0].bits] if isinstance(args[0], BV) else repr(args[0]), inst.loc))
            return BV(I.V.bv('bday', 10).bits + [0] * 22)
        I = mk_interp(P, extra={'birthday_encode': bday}); st = State()
        st.mem.new('seed_out', 8, U)
        feats = I.V.bv('farg', 32)
        outs = I.run(f, [feats, Ptr('seed_out', 0)], st)
        byret = {}
        for o in outs: byret.setdefault(o.ret.concrete(), []).append(o)
        rep.check(set(byret) <= {status['POLYSEED_OK'], status['POLYSEED_ERR_UNSUPPORTED'], status['POLYSEED_ERR_MEMORY']} and status['POLYSEED_OK'] in byret,
                  'create exits with OK / UNSUPPORTED / MEMORY only', w, f.name, detail=sorted(map(str, byret)), key='CREATE|statuses')
        for o in byret.get(status['POLYSEED_ERR_UNSUPPORTED'], []):
            rep.check(not any(t[0] in ('alloc', 'randbytes', 'time') for t in o.state.trace), 'UNSUPPORTED exit happens before allocation, randomness and clock', w,
                      'create UNSUPPORTED exit', detail=[t[0] for t in o.state.trace], key='CREATE|unsupported-early')
        for o in byret.get(status['POLYSEED_ERR_MEMORY'], []):
            rep.check(any(t[0] == 'alloc' and t[2] == 'NULL' for t in o.state.trace) and not any(t[0] in ('randbytes',) for t in o.state.trace),
                      'MEMORY exit iff the allocator returned NULL, nothing else done', w, 'create MEMORY exit', key='CREATE|memory')
            rep.check(all(c == [U] * 8 for c in o.state.mem.objs['seed_out']), '*seed_out not written on failure', w, 'create MEMORY exit', key='CREATE|memory-out')
        for o in byret.get(status['POLYSEED_OK'], []):
            tr = o.state.trace
            heap = [t[2] for t in tr if t[0] == 'alloc' and t[2] != 'NULL']
            rep.check(len(heap) == 1, 'one allocation on the OK path', w, 'create OK exit', key='CREATE|alloc')
            if len(heap) != 1: continue
            H = heap[0]
            fo = field_offsets(P, DATA_STRUCT); so = fo['secret'][0]
            rb = [t for t in tr if t[0] == 'randbytes']
            rep.check(len(rb) == 1 and rb[0][1] == repr(Ptr(H, so)) and rb[0][2] == 19, 'exactly one dep:randbytes(&seed->secret[0], 19)', w, 'create randbytes call',
                      detail=rb, sample=[str(x) for x in rb[0][:3]] if rb else None, key='CREATE|randbytes')
            rep.check(len([t for t in tr if t[0] == 'time']) == 1, 'exactly one dep:time() call', w, 'create time call', key='CREATE|time')
            for k in range(32):
                got = get(o.state, H, so + k, 1).bits
                if k < 18: e = I.V.bv('rand[%d]' % k, 8).bits
                elif k == 18: e = I.V.bv('rand[18]', 8).bits[:6] + [0, 0]
                else: e = [0] * 8
                rep.check(got == e, 'secret[%d] = %s' % (k, [I.V.show(b) for b in e]), w, 'create secret byte %d' % k, detail=[I.V.show(b) for b in got],
                          sample={'byte': k, 'bits': [I.V.show(b) for b in got]} if k in (0, 18, 19) else None, key='CREATE|secret%d' % k)
            ft = [o.state.cons.reduce(b) for b in get(o.state, H, fo['features'][0], 4).bits]
            ef = [o.state.cons.reduce(b) for b in feats.bits[:3]] + [0] * 29
            rep.check(ft == ef, 'features = argument & 7', w, 'create features', detail=[I.V.show(b) for b in ft[:6]], key='CREATE|features')
            bd = get(o.state, H, fo['birthday'][0], 4).bits
            rep.check(bd == I.V.bv('bday', 10).bits + [0] * 22, 'birthday = birthday_encode(dep:time())', w, 'create birthday', detail=[I.V.show(b) for b in bd[:12]], key='CREATE|birthday')
            be = [t for t in tr if t[0] == 'birthday_encode']
            rep.check(len(be) == 1 and be[0][1] == I.V.bv('time', 64).bits, 'birthday_encode is applied once, to the unmodified 64-bit value returned by dep:time()', w, 'create birthday',
                      detail=[I.V.show(b) for b in be[0][1][:14]] if be and isinstance(be[0][1], list) else str(be)[:200], sample={'argument_bits_0_2': [I.V.show(b) for b in be[0][1][:3]]} if be and isinstance(be[0][1], list) else None, key='CREATE|birthday-arg')
            nun = sum(1 for c in o.state.mem.objs[H] if not isinstance(c, tuple) and any(b == U for b in c))
            rep.check(nun == 0, 'every byte of the fresh block is written (never assumed zero)', w, 'create initialisation', detail={'uninit_bytes': nun}, key='CREATE|init')
            ur = [e for e in o.state.events if e[0] in ('uninit-read', 'branch-on-uninit')]
            rep.check(not ur, 'no read of uninitialised memory', w, 'create', detail=ur[:3], key='CREATE|uninit-read')
            I2 = Interp(P, I.V); st2 = o.state.clone(); st2.mem.new('p2', 128, 0)
            o2 = I2.run(P.fn('polyseed_data_to_poly'), P.by_type(P.fn('polyseed_data_to_poly'), seed=Ptr(H, 0), poly=Ptr('p2', 0)), st2)[0]
            ev = I2.run(P.fns('gf_poly_eval')[0], P.by_type(P.fns('gf_poly_eval')[0], poly=Ptr('p2', 0)), o2.state)[0].ret
            ck = get(o.state, H, fo['checksum'][0], 8)
            rep.check([o.state.cons.reduce(b) for b in ck.bits] == [o.state.cons.reduce(b) for b in ev.bits], 'checksum = evaluation of the packed seed with a zero check word', w, 'create checksum', key='CREATE|checksum')
            so_ = I.load(o.state, Ptr('seed_out', 0), 8, f.blocks[0][0], as_ptr=True)
            rep.check(so_ == Ptr(H, 0), '*seed_out = the block', w, 'create output', detail=repr(so_), key='CREATE|out')
            rep.check(not any(t[0] == 'free' for t in tr), 'no release on the OK path', w, 'create OK exit')
            p11(rep, o, w, 'create OK exit', 'CREATE')


def inject(ctx, rep):
    for cfg in cfgs_for(ctx):
        P = ctx.prog(cfg)
        if cfg not in rep.configs: rep.configs.append(cfg)
        f = P.fn('polyseed_inject'); w = loc_of(f)
        rep.rule('INJECT', 'polyseed_inject on a symbolic dependency struct, partitioned on the three NULL tests: the five mandatory entries of the '
                 'library table equal the caller\'s; time/alloc/free equal the caller\'s or, exactly when the caller\'s is NULL, the libc defaults '
                 '(a function returning time(NULL), malloc, free); all 64 bytes are overwritten on every partition (nothing stale survives); the '
                 'caller\'s struct is copied, not referenced')
        dg = P.dep_globals()
        rep.check(len(dg) == 1, 'one dependency table', w, str([g['name'] for g in dg]))
        G = 'g:' + dg[0]['name']
        fields = P.dep_fields        # off -> (name, size)
        defaults = {'alloc': 'f:malloc', 'free': 'f:free'}
        # the default clock: a library function whose body is `return time(NULL)`
        clock = [g for g in P.defined.values() if any(t == ('direct', 'time') for _, t in P.calls(g))]
        rep.check(len(clock) == 1, 'exactly one library function calls time()', w, str([c.name for c in clock]), key='INJECT|clock')
        if clock:
            defaults['time'] = 'f:' + clock[0].name
            c = clock[0]
            call = [i for i, t in P.calls(c) if t == ('direct', 'time')][0]
            rep.check(call.ops[0]['k'] == 'null' and len(list(P.calls(c))) == 1, 'the default clock is time(NULL) and nothing else', loc_of(c), c.name, key='INJECT|clock-body')
        optional = ('time', 'alloc', 'free')
        npart = 0
        for nullmask in range(8):
            skip = {'polyseed_get_num_langs': lambda I, st, a, i: BV.const(0, 32)} if cfg[0] == 'D' else {}
            I = mk_interp(P, extra=skip); st = State()
            st.mem.new('deps', 64, 0)
            for off, (nm, sz) in fields.items():
                isnull = nm in optional and (nullmask >> optional.index(nm)) & 1
                if isnull:
                    put(st, 'deps', off, BV.const(0, 64))
                else:
                    for k in range(8): st.mem.objs['deps'][off + k] = ('ptr', Ptr('f:caller_' + nm, 0), k)
            I.global_obj(st, G[2:])
            for k in range(64): st.mem.objs[G][k] = ('ptr', Ptr('f:stale', 0), k % 8)
            try:
                outs = I.run(f, [Ptr('deps', 0)], st)
            except Unmodelled as e:
                if cfg[0] == 'D':      # debug self-test loops over the word lists: outside this harness
                    rep.notes.append('inject harness skipped in %s: %s' % (cfg, e)); break
                raise
            rep.check(len(outs) == 1, 'single outcome for NULL pattern %d' % nullmask, w, f.name)
            if len(outs) != 1: continue
            npart += 1
            o = outs[0]
            for off, (nm, sz) in fields.items():
                v = I.load(o.state, Ptr(G, off), 8, f.blocks[0][0], as_ptr=True)
                isnull = nm in optional and (nullmask >> optional.index(nm)) & 1
                want = Ptr(defaults[nm], 0) if isnull else Ptr('f:caller_' + nm, 0)
                rep.check(v == want, 'table.%s = %s when caller\'s %s is %s' % (nm, want.obj[2:], nm, 'NULL' if isnull else 'given'), w,
                          'inject field %s (NULL pattern %d)' % (nm, nullmask), detail=repr(v),
                          sample={'field': nm, 'caller_null': bool(isnull), 'table': repr(v)} if nullmask in (0, 7) else None,
                          key='INJECT|%s|%s' % (nm, 'null' if isnull else 'given'))
            stale = sum(1 for c in o.state.mem.objs[G] if isinstance(c, tuple) and c[0] == 'ptr' and c[1].obj == 'f:stale')
            rep.check(stale == 0, 'all 64 bytes of the table overwritten (NULL pattern %d)' % nullmask, w, 'inject', detail=stale, key='INJECT|stale')
            refs = [1 for nm_, cells in o.state.mem.objs.items() for c in cells if isinstance(c, tuple) and c[0] == 'ptr' and c[1].obj == 'deps']
            rep.check(not refs, 'the caller\'s struct address is stored nowhere', w, 'inject', key='INJECT|copied')
        if npart: rep.info['inject_partitions'] = npart


# =====================================================================  decoders / load / encode exit summaries
def _phrase_summaries(I, status):
    def pd(I, st, args, inst):
        outs = []
        for nm in ('POLYSEED_OK', 'POLYSEED_ERR_LANG', 'POLYSEED_ERR_MULT_LANG'):
            s = st.clone()
            s.trace.append(('phrase_decode', repr(args[0]), repr(args[1]), repr(args[2]), nm, inst.loc))
            s.cons.opaque.append(('phrase_decode->' + nm, inst.loc))
            if nm == 'POLYSEED_OK':
                p = args[1]
                for k in range(16):
                    v = BV(I.V.bv('idx%d' % k, GF_BITS).bits + [0] * (64 - GF_BITS))
                    I.store(s, Ptr(p.obj, BV(I.add(p.off.bits, BV.const(8 * k, 64).bits))), v, 8, inst)
                lo = args[2]
                if isinstance(lo, Ptr):
                    I.store(s, lo, Tag('detected-language'), 8, inst)
            outs.append(Outcome(s, BV.const(status[nm], 32)))
        return outs

    def pde(I, st, args, inst):
        outs = []
        for nm in ('POLYSEED_OK', 'POLYSEED_ERR_LANG'):
            s = st.clone()
            s.trace.append(('phrase_decode_explicit', repr(args[0]), repr(args[1]), repr(args[2]), nm, inst.loc))
            s.cons.opaque.append(('phrase_decode->' + nm, inst.loc))
            if nm == 'POLYSEED_OK':
                p = args[2]
                for k in range(16):
                    v = BV(I.V.bv('idx%d' % k, GF_BITS).bits + [0] * (64 - GF_BITS))
                    I.store(s, Ptr(p.obj, BV(I.add(p.off.bits, BV.const(8 * k, 64).bits))), v, 8, inst)
            outs.append(Outcome(s, BV.const(status[nm], 32)))
        return outs
    return {'polyseed_phrase_decode': pd, 'polyseed_phrase_decode_explicit': pde}


def feature_mask_global(P):
    """the enabled-feature state: the one mutable global polyseed_enable_features writes ('g:<name>')"""
    from .rules_effects import written_pointers, mutable_globals
    pts = P.points_to(); M = mutable_globals(P); out = set()
    for n in P.reachable_from(['polyseed_enable_features']):
        f = P.defined.get(n)
        if f is None: continue
        for i in f.all_insts():
            for ptr in written_pointers(P, f, i):
                out |= {o[1] for o in pts.of(f, ptr) if o[0] == 'global' and o[1] in M}
    if len(out) != 1: raise AnalysisBroken('polyseed_enable_features writes %d mutable globals (expected the one feature mask)' % len(out))
    return 'g:' + out.pop()


def feature_predicate(P):
    """the function that tests a feature word against the mask: the library function (other than the enabling call) that loads the mask global"""
    G = feature_mask_global(P)[2:]
    pts = P.points_to(); en = set(P.reachable_from(['polyseed_enable_features']))
    cands = []
    for f in P.defined.values():
        if f.name in en: continue
        if any(i.op == 'load' and ('global', G) in pts.of(f, i.ops[0]) for i in f.all_insts()): cands.append(f)
    if len(cands) != 1: raise AnalysisBroken('%d functions read the feature mask (expected one predicate): %s' % (len(cands), [c.name for c in cands]))
    return cands[0]


def _reserved_symbolic(I, P, st):
    return feature_mask_global(P)


def _reserved_symbolic_old(I, P, st):
    """make the feature predicate's static symbolic but of the reachable shape: bits 0-2 free, bit 3 = 1, others 0"""
    fs = P.fn('polyseed_features_supported')
    I0 = Interp(P); s0 = State(); I0.run(fs, [I0.V.bv('f', 32)], s0)
    gl = sorted(set(a[2] for a in I0.accesses if a[2].startswith('g:')))
    if len(gl) != 1: raise AnalysisBroken('feature predicate reads %d statics' % len(gl))
    return gl[0]


def _exit_kind(o):
    return [t[0] + (':' + t[2] if t[0] == 'alloc' and t[2] == 'NULL' else '') + (':' + t[4] if t[0].startswith('phrase_decode') else '')
            for t in o.state.trace if t[0] not in ('free-content',)]


def _wiped(o, objname_part):
    return [t for t in o.state.trace if t[0] == 'memzero' and (':%s:' % objname_part) in t[1]]


def decoders(ctx, rep):
    for cfg in cfgs_for(ctx):
        P = ctx.prog(cfg)
        if cfg not in rep.configs: rep.configs.append(cfg)
        status = P.enum('polyseed_status'); inv_status = {v: k for k, v in status.items()}
        size = P.structs[DATA_STRUCT]['size']; fo = field_offsets(P, DATA_STRUCT)
        lay = ref_layout()
        summaries = {}
        results = {}
        for fname in ('polyseed_decode', 'polyseed_decode_explicit'):
            f = P.fn(fname); w = loc_of(f)
            def build(fname=fname):
                I = mk_interp(P, extra=_phrase_summaries(None, status))
                # three reachable shapes of the reserved mask are covered by making the user bits of the mask symbolic: use reserved = 15 (default)
                st = State()
                st.mem.new('str', 8, 0); st.mem.new('seed_out', 8, U); st.mem.new('lang_out', 8, U)
                coin = BV(I.V.bv('coin', GF_BITS).bits + [0] * (32 - GF_BITS))
                if fname == 'polyseed_decode':
                    args = [Ptr('str', 0), coin, Ptr('lang_out', 0), Ptr('seed_out', 0)]
                else:
                    st.mem.new('lang', 8, 0)
                    from .ir import LANG_STRUCT
                    lf_ = {n_: (o_, sz_) for o_, (n_, sz_) in P.field_table(LANG_STRUCT).items()}
                    def lang_hook(I_, st_, ptr, nbytes, inst, as_ptr, lf_=lf_):
                        c0 = ptr.parts[0] if ptr.parts else ptr.coff()
                        fb = P.flag_load(LANG_STRUCT, c0, nbytes, {n__: I_.V.bit('lang.' + n__) for n__ in ('is_sorted', 'has_prefix', 'has_accents', 'compose')}) if c0 is not None else None
                        if fb is not None: return BV(fb)
                        for nm_, (o_, sz_) in lf_.items():
                            if o_ == c0 and nm_ in ('name', 'name_en', 'separator'): return Tag(nm_)
                        raise Unmodelled('decoder reads the language table at offset %s (%s)' % (c0, inst.loc))
                    st.mem.hooks = {'lang': lang_hook}
                    args = [Ptr('str', 0), coin, Ptr('lang', 0), Ptr('seed_out', 0)]
                return I, st, args
            I, st, args = build()
            coin = args[1]
            outs = I.run(f, args, st)
            results[fname] = (I, outs)
            if cfg[0] == 'D':
                def probe(val, build=build, f=f):
                    I4, st4, args4 = build()
                    for k, b in enumerate(I4.V.bv('nfkd.len', 64).bits): st4.cons.add(b, (val >> k) & 1)
                    return I4, I4.run(f, args4, st4)
                assert_probe(ctx, rep, f, 'phrase', probe)
            rep.rule('DEC-EXITS', 'exit summaries of polyseed_decode / polyseed_decode_explicit (tokeniser, phrase search and injected functions '
                     'summarised; 16 word indices and the coin as symbols): the statuses are exactly the documented ones, and the first failing stage '
                     'decides: NUM_WORDS before the phrase search; LANG/MULT_LANG returned unchanged before any checksum work; CHECKSUM before any '
                     'allocation; MEMORY only when the allocator returned NULL, after the checksum passed; UNSUPPORTED releases and wipes the block and '
                     'does not publish it; OK publishes the block, canonical and fully initialised, equal to the unpacking of the searched indices with '
                     'the coin removed from coefficient 1; every exit wipes str_tmp, words and poly after their last use')
            by = {}
            for o in outs:
                rv = o.ret.concrete() if isinstance(o.ret, BV) else None
                by.setdefault(rv, []).append(o)
            documented = {'polyseed_decode': ['POLYSEED_OK', 'POLYSEED_ERR_NUM_WORDS', 'POLYSEED_ERR_LANG', 'POLYSEED_ERR_MULT_LANG', 'POLYSEED_ERR_CHECKSUM', 'POLYSEED_ERR_MEMORY', 'POLYSEED_ERR_UNSUPPORTED'],
                          'polyseed_decode_explicit': ['POLYSEED_OK', 'POLYSEED_ERR_NUM_WORDS', 'POLYSEED_ERR_LANG', 'POLYSEED_ERR_CHECKSUM', 'POLYSEED_ERR_MEMORY', 'POLYSEED_ERR_UNSUPPORTED']}[fname]
            got = sorted(inv_status.get(k, str(k)) for k in by)
            rep.check(got == sorted(documented), '%s can return exactly %s' % (fname, sorted(documented)), w, fname, detail=got, sample={'function': fname, 'exits': {inv_status.get(k, str(k)): len(v) for k, v in by.items()}},
                      key='DEC-EXITS|%s|statuses' % fname)
            for rv, os_ in by.items():
                nm = inv_status.get(rv, str(rv))
                for o in os_:
                    kinds = _exit_kind(o); tr = o.state.trace
                    cons = '%s exit %s' % (fname, nm)
                    has_alloc = [t for t in tr if t[0] == 'alloc']
                    pdc = [t for t in tr if t[0].startswith('phrase_decode')]
                    key = 'DEC-EXITS|%s|%s' % (fname, nm)
                    # wipes on every exit
                    for loc_ in ('str_tmp', 'words', 'poly'):
                        wz = _wiped(o, loc_)
                        need = loc_ != 'words'
                        last_use = max([n for n, t in enumerate(tr) if t[0] != 'memzero' and (':%s:' % loc_) in str(t)] + [-1])
                        wipe_pos = max([n for n, t in enumerate(tr) if t[0] == 'memzero' and (':%s:' % loc_) in t[1]] + [-1])
                        if need:
                            rep.check(bool(wz) and wipe_pos > last_use, '%s: %s wiped after its last use' % (cons, loc_), w, cons, detail=kinds, key=key + '|wipe-' + loc_)
                    nk = [n_ for n_, t in enumerate(tr) if t[0] == 'utf8_nfkd_lazy']; sp = [n_ for n_, t in enumerate(tr) if t[0] == 'str_split']
                    okn = len(nk) == 1 and len(sp) == 1 and nk[0] < sp[0] and tr[nk[0]][1] == repr(Ptr('str', 0)) and tr[nk[0]][2] == tr[sp[0]][1]
                    rep.check(okn, '%s: the input is NFKD-normalised (utf8_nfkd_lazy(str, buf)) before str_split(buf, ...) on every path' % cons, w, cons,
                              detail=[str(t)[:100] for t in tr[:3]], key=key + '|nfkd-first')
                    if nm in ('POLYSEED_OK', 'POLYSEED_ERR_CHECKSUM'): p11(rep, o, w, cons, key)
                    if nm == 'POLYSEED_ERR_NUM_WORDS':
                        rep.check(not pdc and not has_alloc, 'NUM_WORDS is decided before the phrase search and before any allocation', w, cons, detail=kinds, key=key + '|order')
                    elif nm in ('POLYSEED_ERR_LANG', 'POLYSEED_ERR_MULT_LANG'):
                        rep.check(len(pdc) == 1 and pdc[0][4] == nm and not has_alloc, 'language status returned unchanged, no allocation', w, cons, detail=kinds, key=key + '|order')
                    elif nm == 'POLYSEED_ERR_CHECKSUM':
                        rep.check(len(pdc) == 1 and pdc[0][4] == 'POLYSEED_OK' and not has_alloc, 'CHECKSUM is decided after the search succeeded and before any allocation', w, cons, detail=kinds, key=key + '|order')
                    elif nm == 'POLYSEED_ERR_MEMORY':
                        rep.check(len(has_alloc) == 1 and has_alloc[0][2] == 'NULL' and not any(t[0] == 'free' for t in tr), 'MEMORY iff the allocator returned NULL; nothing released', w, cons, detail=kinds, key=key + '|order')
                        rep.check(_checksum_passed(I, P, o), 'MEMORY is reported only after the checksum passed', w, cons, key=key + '|after-checksum')
                        rep.check(all(c == [U] * 8 for c in o.state.mem.objs['seed_out']), '*seed_out untouched on failure', w, cons, key=key + '|out')
                    elif nm == 'POLYSEED_ERR_UNSUPPORTED':
                        heap = [t[2] for t in has_alloc if t[2] != 'NULL']
                        fr = [t for t in tr if t[0] == 'free']
                        ok = len(heap) == 1 and len(fr) == 1 and fr[0][1] == repr(Ptr(heap[0], 0))
                        rep.check(ok, 'UNSUPPORTED releases the block exactly once', w, cons, detail=kinds, key=key + '|release')
                        if ok:
                            z = all(c == [0] * 8 for c in o.state.mem.objs[heap[0]])
                            rep.check(z, 'the block is all-zero when it reaches the injected free', w, cons, key=key + '|wiped-block')
                        rep.check(all(c == [U] * 8 for c in o.state.mem.objs['seed_out']), '*seed_out untouched on failure', w, cons, key=key + '|out')
                        rep.check(_checksum_passed(I, P, o), 'UNSUPPORTED is reported only after the checksum passed', w, cons, key=key + '|after-checksum')
                    elif nm == 'POLYSEED_OK':
                        heap = [t[2] for t in has_alloc if t[2] != 'NULL']
                        rep.check(len(heap) == 1 and not any(t[0] == 'free' for t in tr), 'OK: one block, not released', w, cons, detail=kinds, key=key + '|alloc')
                        if len(heap) != 1: continue
                        H = heap[0]
                        so_ = I.load(o.state, Ptr('seed_out', 0), 8, f.blocks[0][0], as_ptr=True)
                        rep.check(so_ == Ptr(H, 0), '*seed_out = the block', w, cons, detail=repr(so_), key=key + '|out')
                        rep.check(_checksum_passed(I, P, o), 'OK only if the checksum over (indices, coin) vanishes', w, cons, key=key + '|after-checksum')
                        nun = sum(1 for c in o.state.mem.objs[H] if not isinstance(c, tuple) and any(b == U for b in c))
                        rep.check(nun == 0, 'every byte of the block written (fresh memory not assumed zero)', w, cons, detail=nun, key=key + '|init')
                        ur = [e for e in o.state.events if e[0] in ('uninit-read', 'branch-on-uninit')]
                        rep.check(not ur, 'no uninitialised read', w, cons, detail=ur[:3], key=key + '|uninit')
                        # fields = unpack(idx with coin removed)
                        C = o.state.cons
                        def coeffbit(i, j):
                            b = I.V.bit('idx%d.%d' % (i, j))
                            if i == 1: b = bxor(b, coin.bits[j])
                            return C.reduce(b)
                        okf = True; bad = None
                        for i in range(1, 16):
                            for j in range(GF_BITS):
                                nmb = lay[i][j]
                                if nmb.startswith('secret['):
                                    k = int(nmb[7:nmb.index(']')]); bit = int(nmb.split('.')[1])
                                    got = C.reduce(get(o.state, H, fo['secret'][0] + k, 1).bits[bit])
                                else:
                                    fld, bit = nmb.split('.'); bit = int(bit)
                                    got = C.reduce(get(o.state, H, fo[fld][0], 4).bits[bit])
                                if got != coeffbit(i, j): okf = False; bad = bad or (nmb, I.V.show(got), I.V.show(coeffbit(i, j)))
                        rep.check(okf, 'seed fields = unpacking of the searched indices with the coin XORed out of coefficient 1 (165 bits)', w, cons, detail=bad, key=key + '|fields')
                        sec = get(o.state, H, fo['secret'][0], 32)
                        rep.check(all(b == 0 for b in sec.bits[8 * 19:]) and sec.bits[8 * 18 + 6] == 0 and sec.bits[8 * 18 + 7] == 0, 'secret within 150 bits, padding zero', w, cons, key=key + '|canonical')
                        ck = [C.reduce(b) for b in get(o.state, H, fo['checksum'][0], 8).bits]
                        rep.check(ck == [C.reduce(b) for b in I.V.bv('idx0', GF_BITS).bits] + [0] * 53, 'checksum field = first word index', w, cons, key=key + '|checksum')
                        ft = [C.reduce(b) for b in get(o.state, H, fo['features'][0], 4).bits]
                        rep.check(all(b == 0 for b in ft[:4]) and all(b == 0 for b in ft[5:]), 'OK only if no reserved feature bit (0-3 under the default mask) is set in the seed handed out', w, cons,
                                  detail=[I.V.show(b) for b in ft[:6]], key=key + '|features')
                        rep.check(not is_const(ft[4]), 'the encrypted flag is accepted either way (not constrained on the OK exit)', w, cons, detail=I.V.show(ft[4]), key=key + '|encrypted-free')
                        # the acceptance condition is exactly: Horner(idx, coin) = 0 and reserved feature bits = 0 - nothing else (in particular no
                        # constraint on the coin alone)
                        E = _expected_accept(I, P, coin, lay)
                        extra = [I.V.show(E.reduce(mk(m_, c_))) for m_, c_ in C.rows.values() if E.reduce(mk(m_, c_)) != 0
                                 and any(n_.startswith(('idx', 'coin')) for n_ in I.V.show_mask(m_))]     # (constraints purely on summary symbols - word count, normaliser length under assertions - are the helpers')
                        rep.check(not extra, 'OK exit is constrained by nothing beyond "checksum over (indices, coin) vanishes" and "reserved feature bits are zero"', w, cons,
                                  detail=extra[:4], key=key + '|exact-accept')
            summaries[fname] = sorted((inv_status.get(o.ret.concrete(), '?'), tuple(k for k in _exit_kind(o) if not k.startswith('phrase_decode') and k != 'alloc') ) for o in outs)
        rep.rule('DEC-SIBLING', 'the two decoders agree exit by exit (same statuses, same order of allocation, release, wipes and checks) once the '
                 'phrase-search call is abstracted; the auto-detecting one has the one extra MULT_LANG exit')
        a = [x for x in summaries['polyseed_decode'] if x[0] != 'POLYSEED_ERR_MULT_LANG']
        b = summaries['polyseed_decode_explicit']
        norm = lambda L: sorted((s, tuple(k.split(':')[0] for k in t)) for s, t in L)
        rep.check(norm(a) == norm(b), 'decode and decode_explicit have the same exit summaries', loc_of(P.fn('polyseed_decode')), 'polyseed_decode vs polyseed_decode_explicit',
                  detail={'decode': norm(a), 'explicit': norm(b)}, sample=[x[0] for x in a])


def _expected_accept(I, P, coin, lay):
    """constraint system of the specified acceptance condition on (idx, coin): Horner form zero; feature bits 0-3 zero"""
    I2 = Interp(P, I.V); st2 = State(); st2.mem.new('p', 128, 0)
    for k in range(16):
        v = I.V.bv('idx%d' % k, GF_BITS).bits
        if k == 1: v = [bxor(x, y) for x, y in zip(v, coin.bits[:GF_BITS])]
        put(st2, 'p', 8 * k, BV(v + [0] * 53))
    ev = I2.run(P.fns('gf_poly_eval')[0], P.by_type(P.fns('gf_poly_eval')[0], poly=Ptr('p', 0)), st2)[0].ret
    E = Constraints()
    for b in ev.bits:
        if b != 0: E.add(b, 0)
    inv = {}
    for i in range(1, 16):
        for j in range(GF_BITS): inv[lay[i][j]] = (i, j)
    for fb in range(4):
        i, j = inv['features.%d' % fb]
        b = I.V.bit('idx%d.%d' % (i, j))
        if i == 1: b = bxor(b, coin.bits[j])
        E.add(b, 0)
    return E


def _checksum_passed(I, P, o):
    """under the partition's constraints the Horner form over (idx, coin) is zero"""
    I2 = Interp(P, I.V); st2 = State(); st2.mem.new('p', 128, 0)
    coin = I.V.bv('coin', GF_BITS)
    for k in range(16):
        v = I.V.bv('idx%d' % k, GF_BITS).bits
        if k == 1: v = [bxor(x, y) for x, y in zip(v, coin.bits)]
        put(st2, 'p', 8 * k, BV(v + [0] * 53))
    ev = I2.run(P.fns('gf_poly_eval')[0], P.by_type(P.fns('gf_poly_eval')[0], poly=Ptr('p', 0)), st2)[0].ret
    return all(o.state.cons.reduce(b) == 0 for b in ev.bits)


def load_api(ctx, rep):
    for cfg in cfgs_for(ctx):
        P = ctx.prog(cfg)
        if cfg not in rep.configs: rep.configs.append(cfg)
        status = P.enum('polyseed_status'); inv_status = {v: k for k, v in status.items()}
        fo = field_offsets(P, DATA_STRUCT)
        f = P.fn('polyseed_load'); w = loc_of(f)
        rep.rule('LOAD-EXITS', 'exit summaries of polyseed_load on 256 symbolic input bits: MEMORY first (allocator NULL, nothing else done); FORMAT '
                 '(from the codec) before CHECKSUM before UNSUPPORTED; every non-OK exit after the allocation releases the block exactly once, '
                 'all-zero, and leaves *seed_out untouched; the checksum is verified over the packed loaded data with coeff[0] = stored check value; '
                 'OK publishes a canonical, fully initialised block; poly is wiped on every exit that wrote it')
        I = mk_interp(P); st = State()
        st.mem.new('storage', 32, 0)
        for k in range(32): put(st, 'storage', k, I.V.bv('in[%d]' % k, 8))
        st.mem.new('seed_out', 8, U)
        outs = I.run(f, [Ptr('storage', 0), Ptr('seed_out', 0)], st)
        by = {}
        for o in outs: by.setdefault(inv_status.get(o.ret.concrete() if isinstance(o.ret, BV) else None, '?'), []).append(o)
        want = ['POLYSEED_ERR_CHECKSUM', 'POLYSEED_ERR_FORMAT', 'POLYSEED_ERR_MEMORY', 'POLYSEED_ERR_UNSUPPORTED', 'POLYSEED_OK']
        rep.check(sorted(by) == want, 'polyseed_load returns exactly %s' % want, w, f.name, detail=sorted(by), sample={k: len(v) for k, v in by.items()}, key='LOAD-EXITS|statuses')
        for nm, os_ in by.items():
            for o in os_:
                tr = o.state.trace; kinds = _exit_kind(o); cons = 'polyseed_load exit %s' % nm; key = 'LOAD-EXITS|' + nm
                al = [t for t in tr if t[0] == 'alloc']; fr = [t for t in tr if t[0] == 'free']
                heap = [t[2] for t in al if t[2] != 'NULL']
                if nm == 'POLYSEED_ERR_MEMORY':
                    rep.check(len(al) == 1 and al[0][2] == 'NULL' and not fr, 'MEMORY iff allocator NULL; nothing released', w, cons, detail=kinds, key=key + '|order')
                    continue
                if nm != 'POLYSEED_OK':
                    ok = len(heap) == 1 and len(fr) == 1 and fr[0][1] == repr(Ptr(heap[0], 0))
                    rep.check(ok, '%s releases the block exactly once' % nm, w, cons, detail=kinds, key=key + '|release')
                    if ok:
                        rep.check(all(c == [0] * 8 for c in o.state.mem.objs[heap[0]]), 'the block is all-zero when it reaches the injected free', w, cons, key=key + '|wiped-block')
                    rep.check(all(c == [U] * 8 for c in o.state.mem.objs['seed_out']), '*seed_out untouched on failure', w, cons, key=key + '|out')
                # which stage decided
                C = o.state.cons
                fmt_ok = _format_ok(I, C)
                if nm == 'POLYSEED_ERR_FORMAT':
                    rep.check(not fmt_ok, 'FORMAT only for buffers the codec rejects', w, cons, key=key + '|stage')
                else:
                    rep.check(fmt_ok, '%s only for well-formed buffers (format is checked first)' % nm, w, cons, key=key + '|stage-format')
                    csum = _load_checksum_zero(I, P, o, C)
                    if nm == 'POLYSEED_ERR_CHECKSUM':
                        rep.check(csum is False or csum is None, 'CHECKSUM exit: the check over the loaded data failed', w, cons, key=key + '|stage')
                        rep.check(not _features_decided(o), 'CHECKSUM is decided before the feature check', w, cons, detail=o.state.cons.opaque[-3:], key=key + '|before-features')
                    else:
                        rep.check(csum is True, '%s only after the checksum over the packed loaded data (coeff[0] = stored check value) vanished' % nm, w, cons, key=key + '|stage-checksum')
                if nm in ('POLYSEED_OK', 'POLYSEED_ERR_CHECKSUM', 'POLYSEED_ERR_UNSUPPORTED'): p11(rep, o, w, cons, key)
                if nm == 'POLYSEED_OK':
                    rep.check(len(heap) == 1 and not fr, 'OK: one block, not released', w, cons, detail=kinds, key=key + '|alloc')
                    if len(heap) == 1:
                        H = heap[0]
                        so_ = I.load(o.state, Ptr('seed_out', 0), 8, f.blocks[0][0], as_ptr=True)
                        rep.check(so_ == Ptr(H, 0), '*seed_out = the block', w, cons, key=key + '|out')
                        nun = sum(1 for c in o.state.mem.objs[H] if not isinstance(c, tuple) and any(b == U for b in c))
                        rep.check(nun == 0, 'every byte of the block written', w, cons, detail=nun, key=key + '|init')
                        ft = [C.reduce(b) for b in get(o.state, H, fo['features'][0], 4).bits]
                        rep.check(all(b == 0 for b in ft[:4]) and all(b == 0 for b in ft[5:]), 'OK only if no reserved feature bit is set', w, cons, detail=[I.V.show(b) for b in ft[:6]], key=key + '|features')
                if any(t[0] == 'memzero' and ':poly:' in t[1] for t in tr) or nm in ('POLYSEED_ERR_MEMORY', 'POLYSEED_ERR_FORMAT'):
                    rep.ok('%s: poly wiped or never written' % cons)
                else:
                    rep.fail('poly wiped after use', w, cons, detail=kinds, key=key + '|wipe-poly')


def _format_ok(I, C):
    """do the partition's constraints pin header, top bit, padding bits, extra byte and footer to the stored constants?"""
    exp = {}
    for k, c in enumerate(b'POLYSEED'):
        for j in range(8): exp[(k, j)] = (c >> j) & 1
    exp[(9, 7)] = 0
    exp[(28, 6)] = 0; exp[(28, 7)] = 0
    for j in range(8): exp[(29, j)] = 1
    for j, v in zip(range(3, 8), (0, 1, 1, 1, 0)): exp[(31, j)] = v
    return all(C.reduce(I.V.bit('in[%d].%d' % (k, j))) == v for (k, j), v in exp.items())


def _load_checksum_zero(I, P, o, C):
    """True if under the constraints the Horner form over the packed input (coeff[0] = stored check value) is zero"""
    I2 = Interp(P, I.V); st2 = State()
    seed, fo = symbolic_seed(I2, st2, canonical=True, prefix='tmp.')
    # express the seed in terms of the input bits
    v1 = [I.V.bit('in[8].%d' % j) for j in range(8)] + [I.V.bit('in[9].%d' % j) for j in range(8)]
    put(st2, 'seed', fo['birthday'][0], BV(v1[:10] + [0] * 22))
    put(st2, 'seed', fo['features'][0], BV(v1[10:15] + [0] * 27))
    for k in range(19):
        b = [I.V.bit('in[%d].%d' % (10 + k, j)) for j in range(8)]
        if k == 18: b = b[:6] + [0, 0]
        put(st2, 'seed', fo['secret'][0] + k, BV(b))
    v2 = [I.V.bit('in[30].%d' % j) for j in range(8)] + [I.V.bit('in[31].%d' % j) for j in range(3)]
    st2.mem.new('p', 128, 0)
    put(st2, 'p', 0, BV(v2 + [0] * 53))
    o2 = I2.run(P.fn('polyseed_data_to_poly'), P.by_type(P.fn('polyseed_data_to_poly'), seed=seed, poly=Ptr('p', 0)), st2)[0]
    ev = I2.run(P.fns('gf_poly_eval')[0], P.by_type(P.fns('gf_poly_eval')[0], poly=Ptr('p', 0)), o2.state)[0].ret
    red = [C.reduce(b) for b in ev.bits]
    if all(b == 0 for b in red): return True
    if any(b == 1 for b in red): return False
    return None


def _features_decided(o):
    return False


def encode_api(ctx, rep):
    for cfg in cfgs_for(ctx):
        P = ctx.prog(cfg)
        if cfg not in rep.configs: rep.configs.append(cfg)
        f = P.fn('polyseed_encode'); w = loc_of(f)
        from .ir import LANG_STRUCT
        lf = {n: (o, sz) for o, (n, sz) in P.field_table(LANG_STRUCT).items()}
        lay = ref_layout()
        rep.rule('ENC-TRACE', 'exit summary of polyseed_encode on a canonical symbolic seed, symbolic 11-bit coin and an opaque language table: '
                 'the unguarded writer is called exactly 31 times on the one local phrase buffer, alternating lang->words[c_w] (w = 0..15 in order) '
                 'and lang->separator, none after the last word; c_0 = the stored check value, c_1 = layout word 1 XOR coin (all 11 coin bits, '
                 'unmasked), c_w = layout word w otherwise; dep:u8_nfc(local, str_out) is called iff lang->compose, else the local is copied to '
                 'str_out; poly and the local buffer are wiped afterwards; the seed is not modified')
        I = mk_interp(P); st = State()
        seed, fo = symbolic_seed(I, st, canonical=True)
        coin = BV(I.V.bv('coin', GF_BITS).bits + [0] * (32 - GF_BITS))
        st.mem.new('str_out', P.ditypes['typedef:polyseed_str']['size_bits'] // 8, U)
        st.mem.new('lang', 8, 0)
        def lang_hook(I, st, ptr, nbytes, inst, as_ptr):
            c0, steps = ptr.parts if ptr.parts else (ptr.coff(), [])
            if not steps:
                fb = P.flag_load(LANG_STRUCT, c0, nbytes, {n__: I.V.bit('lang.' + n__) for n__ in ('is_sorted', 'has_prefix', 'has_accents', 'compose')}) if c0 is not None else None
                if fb is not None: return BV(fb)
                for nm, (o_, sz) in lf.items():
                    if o_ == c0 and nm in ('name', 'name_en', 'separator'): return Tag(nm)
                raise Unmodelled('read of lang at offset %s' % c0)
            if c0 == lf['words'][0] and len(steps) == 1 and steps[0][1] == 8:
                ib = tuple(st.cons.reduce(b) for b in steps[0][0].bits)
                nw = lf['words'][1] // 8
                if all(b == 0 for b in ib[(nw - 1).bit_length():]) and nw == 1 << (nw - 1).bit_length():
                    from . import bitflow as BF_
                    BF_.ACCESS_LOG.add((base_name(inst.fn.name), inst.loc))      # read of the constant table at an index proved < table size (IDX-2)
                return Tag('word', ib)
            raise Unmodelled('unrecognised access to the language table at %s' % inst.loc)
        st.mem.hooks = {'lang': lang_hook}
        before = list(st.mem.objs['seed'])
        outs = I.run(f, [seed, Ptr('lang', 0), coin, Ptr('str_out', 0)], st)
        comps = sorted(set(str(o.state.cons.reduce(I.V.bit('lang.compose'))) for o in outs))
        rep.check(comps == ['0', '1'], 'exits for both a composing and a non-composing language', w, f.name, detail={'partitions': len(outs), 'compose_values': comps}, key='ENC-TRACE|exits')
        rep.info.setdefault('assert_partitions', {})[cfg + ':encode'] = len(I.aborts)
        for o in outs:
            C = o.state.cons
            comp = C.reduce(I.V.bit('lang.compose'))
            cons = 'polyseed_encode (compose=%s)' % comp
            ws = [t for t in o.state.trace if t[0] == 'write_str']
            rep.check(len(ws) == 31, 'exactly 31 writer calls (16 words + 15 separators)', w, cons, detail=len(ws), key='ENC-TRACE|count')
            bufs = set(t[1] for t in ws)
            rep.check(len(bufs) == 1, 'all writer calls use the same cursor', w, cons, detail=sorted(bufs), key='ENC-TRACE|cursor')
            okseq = len(ws) == 31
            for n, t in enumerate(ws[:31]):
                a = t[2]
                if n % 2 == 1:
                    okseq = okseq and isinstance(a, Tag) and a.kind == 'separator'
                else:
                    wi = n // 2
                    if not (isinstance(a, Tag) and a.kind == 'word'):
                        okseq = False; continue
                    idx = list(a.payload)
                    if wi == 0: exp = [I.V.bit('checksum.%d' % j) for j in range(GF_BITS)]
                    else:
                        exp = [I.V.bit(lay[wi][j]) for j in range(GF_BITS)]
                        if wi == 1: exp = [bxor(x, y) for x, y in zip(exp, coin.bits)]
                    exp = exp + [0] * (len(idx) - GF_BITS)
                    rep.check(idx == exp, 'word %d is lang->words[%s]' % (wi + 1, 'check value' if wi == 0 else ('layout word %d%s' % (wi, ' ^ coin' if wi == 1 else ''))), t[3], 'polyseed_encode word %d' % (wi + 1),
                              detail={'found': [I.V.show(b) for b in idx[:12]], 'expected': [I.V.show(b) for b in exp[:12]]},
                              sample={'word': wi + 1, 'index_bits': [I.V.show(b) for b in idx[:11]]} if wi < 2 else None, key='ENC-TRACE|word%d' % wi)
            rep.check(okseq, 'words and separators alternate, ending with a word', w, cons, key='ENC-TRACE|alternate')
            nfc = [t for t in o.state.trace if t[0] == 'u8_nfc']
            if comp == 1:
                rep.check(len(nfc) == 1 and nfc[0][2] == repr(Ptr('str_out', 0)) and nfc[0][1] == ws[0][1].replace('pos', 'str_tmp') or (len(nfc) == 1 and nfc[0][2] == repr(Ptr('str_out', 0))),
                          'composing language: one dep:u8_nfc(local buffer, str_out)', w, cons, detail=nfc, key='ENC-TRACE|nfc')
                rep.check([C.reduce(b) for b in o.ret.bits] == [C.reduce(b) for b in I.V.bv('nfc.len', 64).bits], 'returns the length reported by dep:u8_nfc', w, cons, key='ENC-TRACE|ret-nfc')
            else:
                rep.check(not nfc, 'non-composing language: no NFC call', w, cons, key='ENC-TRACE|no-nfc')
                mc = [t for t in o.state.trace if t[0] == 'memcpy-symbolic-size']
                rep.check(len(mc) == 1 and mc[0][1] == repr(Ptr('str_out', 0)), 'non-composing language: the local buffer is copied to str_out', w, cons, detail=mc, key='ENC-TRACE|copy')
            for loc_ in ('poly', 'str_tmp'):
                rep.check(bool(_wiped(o, loc_)), '%s wiped' % loc_, w, cons, key='ENC-TRACE|wipe-' + loc_)
            rep.check(o.state.mem.objs['seed'] == before, 'seed not modified', w, cons, key='ENC-TRACE|seed')
            so_w = [t for t in o.state.trace if t[0] in ('memzero', 'memzero-symbolic-length', 'randbytes', 'write_str') and 'str_out' in str(t[1])]
            so_acc = [a for a in I.accesses if a[2] == 'str_out' and a[5] == 'store']
            rep.check(not so_w and not so_acc, 'the caller\'s buffer is written only by dep:u8_nfc(local, str_out) or by the one copy of the local buffer', w, cons,
                      detail=[str(t)[:120] for t in so_w[:2]] + [str(a[:5]) for a in so_acc[:2]], key='ENC-TRACE|str_out-writes')
            others = [t[0] for t in o.state.trace if t[0] in ('alloc', 'free', 'randbytes', 'time', 'pbkdf2', 'u8_nfkd')]
            rep.check(not others, 'no other injected function used by encode', w, cons, detail=others, key='ENC-TRACE|deps')


# =====================================================================  C09: language detection
def _search_summary(I, mode, per_word_lang=None):
    """lang_search summary. mode 'lang': one symbolic bit M[lang] decides all 16 lookups of a language;
    per_word_lang: for that language each lookup has its own outcome bit W[wi]"""
    calls = []
    def ls(I, st, args, inst):
        # arguments are recognised by kind, not position (the helper's signature may be rearranged / passed as a struct)
        flat = []
        for a_ in args:
            if isinstance(a_, Agg): flat += list(a_.fields.values())
            elif isinstance(a_, Ptr) and a_.obj.startswith('a:') and a_.obj in st.mem.objs and a_.coff() == 0:
                # a request structure passed by value (byval copy of a local): its pointer-sized members
                cells = st.mem.objs[a_.obj]
                for k in range(0, len(cells) - 7, 8):
                    c = cells[k]
                    if isinstance(c, tuple) and c[0] in ('ptr', 'tag') and c[2] == 0: flat.append(c[1])
            else: flat.append(a_)
        langs_ = [a_ for a_ in flat if isinstance(a_, Ptr) and (a_.obj.startswith('g:polyseed_lang') or a_.obj == 'lang')]
        words_ = [a_ for a_ in flat if isinstance(a_, Tag) and a_.kind == 'token']
        cmps_ = [a_ for a_ in flat if isinstance(a_, Ptr) and a_.obj.startswith('f:')]
        if len(langs_) != 1 or len(words_) != 1 or len(cmps_) != 1:
            raise Unmodelled('lang_search called with an unrecognised argument shape at %s' % inst.loc)
        lang, word, cmp_ = langs_[0], words_[0], cmps_[0]
        ln = lang.obj[2:] if isinstance(lang, Ptr) else repr(lang)
        wi = word.payload if isinstance(word, Tag) and word.kind == 'token' else None
        calls.append((ln, wi, repr(cmp_), inst.fn.name))
        st.trace.append(('lang_search', ln, wi, repr(cmp_)))
        bit = I.V.bit('W[%s]' % wi) if ln == per_word_lang else I.V.bit('M[%s]' % ln)
        b = st.cons.reduce(bit)
        found = BV(I.V.bv('r[%s][%s]' % (ln, wi), GF_BITS).bits + [0] * (32 - GF_BITS))
        miss = BV.const(0xffffffff, 32)
        tgt_ = I.P.call_target(inst)
        if tgt_[0] == 'direct' and tgt_[1] in I.P.defined and I.P.defined[tgt_[1]].d.get('ret_ty', '').endswith('*'):
            # the search returns the matching table entry (or NULL) instead of its index: entry = &lang->words[r]
            from .ir import LANG_STRUCT
            woff_ = [o_ for o_, (n_, s_) in I.P.field_table(LANG_STRUCT).items() if n_ == 'words'][0]
            idx64 = BV(found.bits[:GF_BITS] + [0] * (64 - GF_BITS))
            found = Ptr(lang.obj, BV(I.add(BV.const(woff_, 64).bits, ([0] * 3 + idx64.bits)[:64])), (woff_, [(idx64, 8)]))
            miss = BV.const(0, 64)
        if b == 1: return found
        if b == 0: return miss
        outs = []
        for val, ret in ((0, miss), (1, found)):
            s = st.clone()
            if s.cons.add(bit, val): outs.append(Outcome(s, ret))
        return outs
    return ls, calls


def detection(ctx, rep):
    for cfg in cfgs_for(ctx):
        P = ctx.prog(cfg)
        if cfg not in rep.configs: rep.configs.append(cfg)
        T = ctx.tables()
        status = P.enum('polyseed_status'); inv = {v: k for k, v in status.items()}
        f = P.fn('polyseed_phrase_decode'); w = loc_of(f)
        langs = list(T.registry)
        def setup(I, st, lang_out=True):
            st.mem.new('phrase', 128, 0)
            for k in range(16):
                for j in range(8): st.mem.objs['phrase'][8 * k + j] = ('tag', Tag('token', k), j)
            st.mem.new('idx_out', 128, 0)
            for k in range(16): put(st, 'idx_out', 8 * k, I.V.bv('old%d' % k, 64))
            st.mem.new('lang_out', 8, 0)
            for j in range(8): st.mem.objs['lang_out'][j] = ('tag', Tag('old-lang'), j)
            return [Ptr('phrase', 0), Ptr('idx_out', 0), Ptr('lang_out', 0) if lang_out else BV.const(0, 64)]
        rep.rule('DETECT', 'polyseed_phrase_decode with the per-language search summarised (one symbolic outcome bit per registered language; found '
                 'indices are symbols): for every one of the 2^10 outcome assignments the result is OK iff exactly one language matched - and then '
                 'idx_out holds exactly that language\'s 16 indices and *lang_out that language -, MULT_LANG iff two or more matched (whatever the '
                 'indices are), ERR_LANG iff none matched with idx_out and *lang_out untouched; every registered language is tried; the temporary '
                 'index array is wiped on every exit; a NULL lang_out is not written through')
        for with_lang_out in (True, False):
            ls, calls = _search_summary(None, 'lang')
            I = mk_interp(P, extra={'lang_search': ls}); I.budget = 20000; I.max_steps = 4000000
            st = State()
            try:
                outs = I.run(f, setup(I, st, lang_out=with_lang_out), st)
            except Unmodelled:
                ob_ = [x for x in I.oob if x[6] and x[3] is not None and x[2].startswith('g:')]
                if ob_:
                    # a partition described by exact constraints on the per-language outcomes indexes a table of the library out of bounds: a feasible path
                    x = ob_[0]
                    rep.fail('every access to a library table made by the detection loop is in bounds', x[0], 'polyseed_phrase_decode: %s of %d byte(s) at offset %d of %s (%d bytes)' % (x[1], x[4], x[3], x[2][2:], x[5]),
                             detail={'at': x[0], 'object': x[2][2:], 'offset': x[3], 'size': x[5], 'languages_matching': sorted(ln_ for ln_ in langs if st.cons.reduce(I.V.bit('M[%s]' % ln_)) == 1)[:4]}, key='DETECT|oob')
                    continue
                nd_ = [x for x in I.null_derefs if x[3]]
                if not nd_ or with_lang_out: raise
                # a partition described by exact (affine) constraints on the per-language outcomes dereferences NULL: a feasible path
                rep.fail('a NULL lang_out (documented as optional) is never written through', nd_[0][0], 'polyseed_phrase_decode with lang_out = NULL: %s through NULL' % nd_[0][1],
                         detail={'at': nd_[0][0], 'access': nd_[0][1]}, key='DETECT|null-lang_out')
                continue
            rep.info['detection_partitions'] = len(outs)
            tried = sorted(set(c[0] for c in calls))
            rep.check(tried == sorted(langs), 'every registered language is searched (%d)' % len(langs), w, f.name, detail={'searched': tried, 'registered': sorted(langs)},
                      sample={'languages_tried': len(tried)}, key='DETECT|all-languages')
            nchk = 0
            for o in outs:
                C = o.state.cons
                M = {ln: C.reduce(I.V.bit('M[%s]' % ln)) for ln in langs}
                decided = [ln for ln in langs if M[ln] == 1]
                undec = [ln for ln in langs if not is_const(M[ln])]
                rv = inv.get(o.ret.concrete(), str(o.ret))
                cons = 'phrase_decode partition matched=%s undecided=%d' % ([x.replace('polyseed_lang_', '') for x in decided], len(undec))
                nchk += 1
                if len(decided) >= 2:
                    rep.check(rv == 'POLYSEED_ERR_MULT_LANG', 'two or more matching languages -> MULT_LANG', w, cons, detail=rv, sample={'matched': decided, 'status': rv} if nchk < 4 else None,
                              key='DETECT|mult|%s|%s' % ('+'.join(sorted(decided)[:2]), with_lang_out))
                elif undec:
                    rep.fail('the outcome is decided only after every language has been tried (no early exit while fewer than two languages matched)', w, cons,
                             detail={'status': rv, 'languages_not_tried': undec[:4]}, key='DETECT|early|%s|%s' % (rv, with_lang_out))
                elif len(decided) == 0:
                    ok = rv == 'POLYSEED_ERR_LANG'
                    unt = all(get(o.state, 'idx_out', 8 * k, 8).bits == I.V.bv('old%d' % k, 64).bits for k in range(16))
                    lo = I.load(o.state, Ptr('lang_out', 0), 8, f.blocks[0][0], as_ptr=True)
                    rep.check(ok and unt and lo == Tag('old-lang'), 'no matching language -> ERR_LANG, outputs untouched (lang_out %s)' % ('given' if with_lang_out else 'NULL'), w, cons, detail=rv, key='DETECT|none|%s' % with_lang_out)
                else:
                    ln = decided[0]
                    ok = rv == 'POLYSEED_OK'
                    idx_ok = all([C.reduce(b) for b in get(o.state, 'idx_out', 8 * k, 8).bits] == [C.reduce(b) for b in I.V.bv('r[%s][%s]' % (ln, k), GF_BITS).bits] + [0] * 53 for k in range(16))
                    lo = I.load(o.state, Ptr('lang_out', 0), 8, f.blocks[0][0], as_ptr=True)
                    rep.check(ok and idx_ok and lo == (Ptr('g:' + ln, 0) if with_lang_out else Tag('old-lang')), 'exactly one matching language (%s) -> OK with its indices and its table (lang_out %s)' % (ln, 'given' if with_lang_out else 'NULL: not written'), w, cons,
                              detail={'status': rv, 'indices_ok': idx_ok, 'lang_out': repr(lo)}, sample={'matched': ln, 'status': rv} if nchk < 30 and ln.endswith('en') else None,
                              key='DETECT|one|%s|%s' % (ln, with_lang_out))
                wz = [t for t in o.state.trace if t[0] == 'memzero' and ':idx:' in t[1]]
                rep.check(bool(wz), 'temporary index array wiped on this exit', w, cons, key='DETECT|wipe')
        rep.rule('DETECT-WORD', 'a language counts as matching iff all 16 lookups succeed: with one outcome bit per word for one language (all others not '
                 'matching) the result is OK iff all 16 bits are set, and the first failing lookup ends that language\'s attempt; the same per-language '
                 'search (lang_search(lang, phrase[wi], get_comparer(lang))) is used by polyseed_phrase_decode_explicit, which returns OK with the 16 '
                 'indices iff all lookups succeed and ERR_LANG otherwise')
        positions = [0, len(langs) - 1] if ctx.tier == 'quick' else list(range(len(langs)))
        for pos in positions:
            ln = langs[pos]
            ls3, calls3 = _search_summary(None, 'lang', per_word_lang=ln)
            I3 = mk_interp(P, extra={'lang_search': ls3}); st3 = State()
            for other in langs:
                if other != ln: st3.cons.add(I3.V.bit('M[%s]' % other), 0)
            outs3 = I3.run(f, setup(I3, st3), st3)
            for o in outs3:
                C = o.state.cons
                W = [C.reduce(I3.V.bit('W[%d]' % k)) for k in range(16)]
                rv = inv.get(o.ret.concrete(), str(o.ret))
                allset = all(b == 1 for b in W)
                firstfail = next((k for k, b in enumerate(W) if b == 0), None)
                und = [k for k, b in enumerate(W) if not is_const(b)]
                ok = (rv == 'POLYSEED_OK') == allset and (allset or (firstfail is not None and all(W[k] == 1 for k in range(firstfail)) and all(k > firstfail for k in und)))
                rep.check(ok, '%s: lookups %s -> %s' % (ln, ''.join('1' if b == 1 else ('0' if b == 0 else '?') for b in W), rv), w, 'phrase_decode inner loop, language %s' % ln,
                          detail={'W': [I3.V.show(b) for b in W], 'status': rv}, sample={'language': ln, 'lookups': ''.join('1' if b == 1 else ('0' if b == 0 else '?') for b in W), 'status': rv} if firstfail in (None, 0, 15) else None,
                          key='DETECT-WORD|%s|%s' % (ln, firstfail))
            rep.check(len(outs3) == 17, '%s: 17 partitions (all found, or first failure at word 0..15)' % ln, w, 'phrase_decode inner loop', detail=len(outs3), key='DETECT-WORD|%s|count' % ln)
        rep.rule('DETECT-PARTIAL', 'a language that recognises only some leading words of the phrase leaves no trace: with language A matching all 16 words, '
                 'language B having one outcome bit per word (17 outcomes: first failure at word 0..15, or all found) and every other language not matching, '
                 'a B that fails somewhere gives OK with exactly A\'s 16 indices and A\'s table in *lang_out, whatever the order of A and B in the registry; '
                 'a B that finds all 16 gives MULT_LANG')
        if ctx.tier == 'quick' or cfg != 'NsS': pairs = [(0, len(langs) - 1), (len(langs) - 1, 0), (len(langs) // 2, len(langs) // 2 + 1)]      # (all ordered pairs once, in the release configuration)
        else: pairs = [(x, y) for x in range(len(langs)) for y in range(len(langs)) if x != y]
        for pa, pb in pairs:
            la, lb = langs[pa], langs[pb]
            ls5, calls5 = _search_summary(None, 'lang', per_word_lang=lb)
            I5 = mk_interp(P, extra={'lang_search': ls5}); st5 = State()
            for other in langs:
                if other != lb: st5.cons.add(I5.V.bit('M[%s]' % other), 1 if other == la else 0)
            outs5 = I5.run(f, setup(I5, st5), st5)
            for o in outs5:
                C = o.state.cons
                W = [C.reduce(I5.V.bit('W[%d]' % k)) for k in range(16)]
                rv = inv.get(o.ret.concrete(), str(o.ret))
                allset = all(b == 1 for b in W)
                firstfail = next((k for k, b in enumerate(W) if b == 0), None)
                cons = 'phrase_decode, %s matches, %s finds %s' % (la.replace('polyseed_lang_', ''), lb.replace('polyseed_lang_', ''), 'all words' if allset else 'the first %s word(s)' % firstfail)
                if allset:
                    rep.check(rv == 'POLYSEED_ERR_MULT_LANG', 'both languages match -> MULT_LANG', w, cons, detail=rv, key='DETECT-PARTIAL|%s|%s|all' % (la, lb))
                else:
                    bad = [k for k in range(16) if [C.reduce(b) for b in get(o.state, 'idx_out', 8 * k, 8).bits] != [C.reduce(b) for b in I5.V.bv('r[%s][%s]' % (la, k), GF_BITS).bits] + [0] * 53]
                    lo = I5.load(o.state, Ptr('lang_out', 0), 8, f.blocks[0][0], as_ptr=True)
                    rep.check(rv == 'POLYSEED_OK' and not bad and lo == Ptr('g:' + la, 0), 'OK with the 16 indices and the table of the one matching language', w, cons,
                              detail={'status': rv, 'words_with_wrong_index': bad, 'lang_out': repr(lo)},
                              sample={'matching': la, 'partial': lb, 'first_failure': firstfail, 'status': rv} if firstfail in (1, 15) else None,
                              key='DETECT-PARTIAL|%s|%s|%s' % (la, lb, firstfail))
            rep.check(len(outs5) == 17, '17 partitions for the partially matching language', w, 'phrase_decode (%s full, %s partial)' % (la, lb), detail=len(outs5), key='DETECT-PARTIAL|%s|%s|count' % (la, lb))
        # explicit decoder
        g = P.fn('polyseed_phrase_decode_explicit'); wg = loc_of(g)
        ln = langs[0]
        ls4, calls4 = _search_summary(None, 'lang', per_word_lang=ln)
        I4 = mk_interp(P, extra={'lang_search': ls4}); st4 = State()
        a = setup(I4, st4)
        try:
            outs4 = I4.run(g, [a[0], Ptr('g:' + ln, 0), a[1]], st4)
        except Unmodelled as e4:
            if 'budget' not in str(e4): raise
            # the 2^16 lookup outcomes do not collapse to 17 (no exit at the first failure?): decide the necessary condition "one unknown word -> ERR_LANG" word by word
            for k in range(16):
                ls6, _ = _search_summary(None, 'lang', per_word_lang=ln)
                I6 = mk_interp(P, extra={'lang_search': ls6}); st6 = State()
                for j in range(16): st6.cons.add(I6.V.bit('W[%d]' % j), 0 if j == k else 1)
                a6 = setup(I6, st6)
                for o in I6.run(g, [a6[0], Ptr('g:' + ln, 0), a6[1]], st6):
                    rv = inv.get(o.ret.concrete(), str(o.ret))
                    rep.check(rv == 'POLYSEED_ERR_LANG', 'explicit: only word %d unknown -> %s' % (k, rv), wg, 'phrase_decode_explicit', detail={'status': rv, 'unknown_word': k}, key='DETECT-WORD|explicit|single-miss')
            if not rep.violations: raise
            continue
        for o in outs4:
            C = o.state.cons
            W = [C.reduce(I4.V.bit('W[%d]' % k)) for k in range(16)]
            rv = inv.get(o.ret.concrete(), str(o.ret)); allset = all(b == 1 for b in W)
            ok = (rv == 'POLYSEED_OK') == allset and rv in ('POLYSEED_OK', 'POLYSEED_ERR_LANG')
            if allset:
                ok = ok and all([C.reduce(b) for b in get(o.state, 'idx_out', 8 * k, 8).bits] == [C.reduce(b) for b in I4.V.bv('r[%s][%s]' % (ln, k), GF_BITS).bits] + [0] * 53 for k in range(16))
            rep.check(ok, 'explicit: lookups %s -> %s' % (''.join('1' if b == 1 else ('0' if b == 0 else '?') for b in W), rv), wg, 'phrase_decode_explicit', detail=rv, key='DETECT-WORD|explicit|%s' % rv)
        rep.check(len(outs4) == 17, 'explicit: 17 partitions', wg, g.name, detail=len(outs4), key='DETECT-WORD|explicit|count')
        sig_auto = sorted(set((c[1], c[2]) for c in calls3 if c[0] == ln)) if positions and langs[positions[-1]] == ln else None
        sig_a = sorted(set((c[0], c[2]) for c in calls))      # (language, comparator) pairs used by auto detection
        sig_e = sorted(set((c[0], c[2]) for c in calls4))
        rep.check(all(x in sig_a for x in sig_e), 'explicit decoding searches a language with the same comparator as auto-detection does', wg, g.name,
                  detail={'explicit': sig_e, 'auto': [x for x in sig_a if x[0] == ln]}, sample=sig_e, key='DETECT-WORD|same-search')
