"""Bitflow obligations: L-MUL2 / Horner (C02), L-PACK (C03, C01), storage codec (C06), keygen (C04), crypt (C12),
features (C10), create / inject (C18), L-INIT (C13)."""
from .frontend import AnalysisBroken
from .bitflow import *
from .harness import *
from .ir import DATA_STRUCT, base_name

GF_BITS = 11


# ---------- GF(2) linear algebra on small matrices (rows = output bits, as masks over input bits)
def mat_mul(A, B, n=GF_BITS):
    """(A*B)[i] = XOR over k in A[i] of B[k]"""
    out = []
    for r in A:
        acc = 0; k = 0
        while r:
            if r & 1: acc ^= B[k]
            r >>= 1; k += 1
        out.append(acc)
    return out


def mat_rank(A):
    rows = list(A); rank = 0
    for bit in range(max(GF_BITS, max((r.bit_length() for r in rows), default=0))):
        piv = None
        for i in range(rank, len(rows)):
            if (rows[i] >> bit) & 1: piv = i; break
        if piv is None: continue
        rows[rank], rows[piv] = rows[piv], rows[rank]
        for i in range(len(rows)):
            if i != rank and (rows[i] >> bit) & 1: rows[i] ^= rows[rank]
        rank += 1
    return rank


def ref_mul2():
    """multiplication by x in GF(2)[x]/(x^11 + x^2 + 1): y0=x10, y1=x0, y2=x1^x10, yk=x(k-1)"""
    rows = [0] * GF_BITS
    rows[0] = 1 << 10
    rows[1] = 1 << 0
    rows[2] = (1 << 1) | (1 << 10)
    for k in range(3, GF_BITS): rows[k] = 1 << (k - 1)
    return rows


def ident():
    return [1 << k for k in range(GF_BITS)]


def cfgs_for(ctx):
    return ctx.configs('path') if ctx.tier == 'thorough' else ['NsS']


def forms_of(I, bv, nbits, varprefix_ok, where, rep, desc):
    """check that bits 0..nbits-1 are affine forms (constant part 0) and higher bits 0; returns list of masks or None"""
    out = []
    for j, b in enumerate(bv.bits):
        if j >= nbits:
            if b != 0: return None
            continue
        if b == 0: out.append(0)
        elif is_form(b) and b[1] == 0: out.append(b[0])
        else: return None
    return out


def _horner_probe(P, f, rep, where, L):
    """gf_poly_eval with coefficients i < j symbolic and every other coefficient zero must be L^i c_i + L^j c_j on every partition; returns True if a
    disagreement was reported"""
    pws = [ident()]
    for _ in range(15): pws.append(mat_mul(L, pws[-1]))
    for i in range(16):
        for j in range(i + 1, 16):
            I = Interp(P); st = State(); st.mem.new('poly', 128, 0)
            ci = I.V.bv('c%d' % i, GF_BITS); cj = I.V.bv('c%d' % j, GF_BITS)
            put(st, 'poly', 8 * i, BV(ci.bits + [0] * (64 - GF_BITS))); put(st, 'poly', 8 * j, BV(cj.bits + [0] * (64 - GF_BITS)))
            try:
                outs = I.run(f, [Ptr('poly', 0)], st)
            except Unmodelled:
                return False
            for o in outs:
                C = o.state.cons
                for b_ in range(GF_BITS):
                    want = 0
                    for k in range(GF_BITS):
                        if (pws[i][b_] >> k) & 1: want = bxor(want, ci.bits[k])
                        if (pws[j][b_] >> k) & 1: want = bxor(want, cj.bits[k])
                    got = o.ret.bits[b_]
                    if C.reduce(got) != C.reduce(want):
                        rep.fail('gf_poly_eval is the Horner form SUM L^k coeff[k] (probed with coeff[%d], coeff[%d] symbolic and all others zero, because its control flow depends on '
                                 'coefficient values)' % (i, j), where, '%s: evaluation depends on which coefficients are zero' % base_name(f.name),
                                 detail={'coefficients': [i, j], 'bit': b_, 'found': I.V.show(C.reduce(got)), 'expected': I.V.show(C.reduce(want)), 'partition': [str(x)[:80] for x in C.opaque[-3:]]},
                                 key='HORNER|probe')
                        return True
    return False


def codec_values(fl, status):
    """(accept, reject) return values of the internal deserialiser: the status enumerators, or true / false when it reports a boolean (how polyseed_load maps them to statuses is
    decided by LOAD-EXITS)"""
    if fl.d.get('ret_bits') == 1 or fl.d.get('ret_ty') == 'i1': return 1, 0
    return status['POLYSEED_OK'], status['POLYSEED_ERR_FORMAT']


# =====================================================================  C02
def mul2_and_horner(ctx, rep):
    for cfg in cfgs_for(ctx):
        P = ctx.prog(cfg)
        if cfg not in rep.configs: rep.configs.append(cfg)
        # ---- L-MUL2
        rep.rule('MUL2', 'gf_elem_mul2(x), x = x10..x0 with higher bits zero, equals multiplication by the indeterminate modulo '
                 'x^11+x^2+1 on every element: y0=x10, y1=x0, y2=x1^x10, yk=x(k-1) (k=3..10), bits >= 11 zero; derived '
                 'symbolically (trace partitioning on x<1024 and on the 3 table-index bits, exact affine merge), i.e. for all 2048 elements')
        fs = P.fns('gf_elem_mul2')
        rep.instances(len(fs), 1, 'copies of gf_elem_mul2')
        L = ref_mul2()
        Lmat = None
        for f in fs:
            I = Interp(P); st = State()
            x = I.V.bv('x', GF_BITS)
            outs = I.run(f, [BV(x.bits + [0] * (64 - GF_BITS))], st)
            where = '%s:%s' % ((f.file or '').replace('/repo/', ''), f.line)
            if len(outs) != 1:
                rep.fail('all partitions of gf_elem_mul2 merge into one affine map (the function is GF(2)-linear)', where, f.name,
                         detail=[I.V.show_bv(o.ret)[:12] for o in outs][:6], key='MUL2|linear')
                continue
            r = outs[0].ret
            for j in range(64):
                want = mk(sum(1 << I.V.index['x.%d' % k] for k in range(GF_BITS) if (L[j] >> k) & 1), 0) if j < GF_BITS else 0
                rep.check(r.bits[j] == want, 'mul2 output bit %d = %s' % (j, I.V.show(want)), where, '%s bit %d' % (base_name(f.name), j),
                          detail={'found': I.V.show(r.bits[j]), 'expected': I.V.show(want)},
                          sample={'bit': j, 'form': I.V.show(r.bits[j])}, key='MUL2|bit%d' % j)
            rep.check(not outs[0].state.events, 'no uninitialised / out-of-bounds access in gf_elem_mul2', where, f.name, detail=outs[0].state.events[:3])
            rep.info['mul2_partitions'] = I.nforks

        # ---- Horner evaluation
        rep.rule('HORNER', 'gf_poly_eval on 16 symbolic 11-bit coefficients returns SUM_i L^i * coeff[i] (L = the map proved by MUL2): '
                 'the 16 11x11 GF(2) matrices extracted from the abstract result equal the powers of L; gf_poly_check is '
                 '(that form == 0); gf_poly_encode stores that form into coeff[0]')
        fe = P.fns('gf_poly_eval')
        rep.instances(len(fe), 1, 'copies of gf_poly_eval')
        mats_by_fn = {}
        for f in fe:
            I = Interp(P); st = State()
            p = symbolic_poly(I, st)
            where = '%s:%s' % ((f.file or '').replace('/repo/', ''), f.line)
            try:
                outs = I.run(f, P.by_type(f, poly=p), st)
            except Unmodelled as e_:
                # control flow that depends on coefficient values: probe with two symbolic coefficients at a time (all others zero) against the reference form
                if _horner_probe(P, f, rep, where, L): continue
                raise
            if len(outs) != 1:
                rep.fail('gf_poly_eval merges into one affine form', where, f.name, key='HORNER|linear'); continue
            r = outs[0].ret
            mats = [[0] * GF_BITS for _ in range(16)]
            ok = True
            for j, b in enumerate(r.bits):
                if j >= GF_BITS:
                    ok = ok and b == 0; continue
                if b == 0: continue
                if not is_form(b) or b[1] != 0: ok = False; continue
                for nm in I.V.show_mask(b[0]):
                    import re as _re
                    m_ = _re.fullmatch(r'c(\d+)\.(\d+)', nm)
                    if not m_: ok = False; continue          # depends on something that is not a coefficient bit (an opaque, non-linear intermediate result)
                    mats[int(m_.group(1))][j] |= 1 << int(m_.group(2))
            rep.check(ok, 'evaluation is a homogeneous GF(2)-linear form with bits >= 11 zero', where, f.name, key='HORNER|form')
            pw = ident()
            for i in range(16):
                rep.check(mats[i] == pw, 'coefficient %d enters the evaluation through L^%d' % (i, i), where,
                          '%s coefficient %d' % (base_name(f.name), i), detail={'found_rows': mats[i], 'expected_rows': pw},
                          sample={'coeff': i, 'matrix_rows': mats[i]}, key='HORNER|coeff%d' % i)
                pw = mat_mul(L, pw)
            mats_by_fn[f.name] = mats
            # bounds: all 16 loads in range, none uninitialised
            bad = [a for a in I.accesses if not a[6]]
            rep.check(not bad and not outs[0].state.events, 'all coefficient loads in bounds and initialised', where, f.name, detail=bad[:3])

        rep.rule('ALGEBRA', 'on the matrices read out of the code: every L^i (i=0..15) is invertible (a change of one word always '
                 'changes the evaluation; exactly one check word validates) and L^i xor L^j is invertible for all 120 pairs i<j '
                 '(exchanging two unequal words always changes the evaluation)')
        for fname, mats in mats_by_fn.items():
            for i in range(16):
                rep.check(mat_rank(mats[i]) == GF_BITS, 'rank(M_%d) = 11' % i, fname, 'gf_poly_eval position %d' % i, key='ALGEBRA|pos%d' % i)
            for i in range(16):
                for j in range(i + 1, 16):
                    d = [a ^ b for a, b in zip(mats[i], mats[j])]
                    rep.check(mat_rank(d) == GF_BITS, 'rank(M_%d xor M_%d) = 11' % (i, j), fname, 'gf_poly_eval positions %d,%d' % (i, j),
                              key='ALGEBRA|pair%d-%d' % (i, j))

        rep.rule('CHECK-ENC', 'gf_poly_check(p) is true iff the evaluation form is zero; gf_poly_encode(p) with coeff[0]=0 stores the '
                 'evaluation of the other 15 coefficients into coeff[0] (so the stored value makes the form vanish) and writes nothing else')
        for f in P.fns('gf_poly_check'):
            I = Interp(P); st = State(); p = symbolic_poly(I, st)
            outs = I.run(f, P.by_type(f, poly=p), st)
            I2 = Interp(P, I.V); st2 = State(); p2 = symbolic_poly(I2, st2)
            ev = I2.run(P.fns('gf_poly_eval')[0], P.by_type(P.fns('gf_poly_eval')[0], poly=p2), st2)[0].ret
            ok = False
            if len(outs) == 1 and outs[0].ret.concrete() is None:
                r = outs[0].ret
                zi = r.zero_iff
                if zi and zi[0] == 'allzero':
                    ok = (not zi[2]) and sorted(map(repr, zi[1])) == sorted(repr(b) for b in ev.bits if b != 0)
            elif len(outs) >= 2 and all(o.ret.concrete() is not None for o in outs):
                # partitioned form (any encoding of the two answers): exactly one partition is constrained to "evaluation = 0", it answers differently from all the others
                nzb = [b for b in ev.bits if b != 0]
                zero = [o for o in outs if all(o.state.cons.reduce(b) == 0 for b in nzb)]
                ok = len(zero) == 1 and all(o.ret.concrete() != zero[0].ret.concrete() for o in outs if o is not zero[0]) \
                    and len(set(o.ret.concrete() for o in outs if o is not zero[0])) == 1
            rep.check(ok, 'gf_poly_check returns (eval == 0)', '%s:%s' % ((f.file or '').replace('/repo/', ''), f.line), f.name,
                      detail=str(outs[0].ret.zero_iff)[:200] if outs else None, key='CHECK-ENC|check')
        for f in P.fns('gf_poly_encode'):
            I = Interp(P); st = State(); p = symbolic_poly(I, st, first=1)
            before = [list(c) for c in st.mem.objs['poly']]
            outs = I.run(f, P.by_type(f, poly=p), st)
            ok = len(outs) == 1
            if ok:
                m = outs[0].state.mem.objs['poly']
                I2 = Interp(P, I.V); st2 = State(); p2 = symbolic_poly(I2, st2, first=1)
                ev = I2.run(P.fns('gf_poly_eval')[0], P.by_type(P.fns('gf_poly_eval')[0], poly=p2), st2)[0].ret
                got = get(outs[0].state, 'poly', 0, 8)
                ok = got.bits == ev.bits and all(m[k] == before[k] for k in range(8, 128))
            rep.check(ok, 'gf_poly_encode stores eval(coeff[1..15]) into coeff[0] only', '%s:%s' % ((f.file or '').replace('/repo/', ''), f.line),
                      f.name, key='CHECK-ENC|encode')


# =====================================================================  C03 / C01: packing
def ref_layout():
    """published layout: coefficient i (1..15): bit 10-b (b=0..9) = secret bit n = 10(i-1)+b, counted MSB-first from secret[0]
    (byte n//8, bit 7-(n%8); the 19th byte contributes its low 6 bits: n >= 144 -> bit 5-(n-144)); bit 0 = bit 14-(i-1) of
    (features << 10 | birthday)"""
    lay = {}
    for i in range(1, 16):
        bits = [None] * GF_BITS
        for b in range(10):
            n = 10 * (i - 1) + b
            if n < 144: nm = 'secret[%d].%d' % (n // 8, 7 - (n % 8))
            else: nm = 'secret[18].%d' % (5 - (n - 144))
            bits[10 - b] = nm
        e = 14 - (i - 1)
        bits[0] = 'features.%d' % (e - 10) if e >= 10 else 'birthday.%d' % e
        lay[i] = bits
    return lay


def packing(ctx, rep, want=('layout', 'inverse')):
    for cfg in cfgs_for(ctx):
        P = ctx.prog(cfg)
        if cfg not in rep.configs: rep.configs.append(cfg)
        f = P.fn('polyseed_data_to_poly'); g = P.fn('polyseed_poly_to_data')
        wf = '%s:%s' % ((f.file or '').replace('/repo/', ''), f.line); wg = '%s:%s' % ((g.file or '').replace('/repo/', ''), g.line)
        lay = ref_layout()
        # ---- data -> poly on a canonical seed whose secret[18] top bits and padding are nevertheless symbolic (purity)
        I = Interp(P); st = State()
        seed, fo = symbolic_seed(I, st, canonical=True)
        so = fo['secret'][0]
        put(st, 'seed', so + 18, I.V.bv('secret[18]', 8))
        for k in range(19, 32): put(st, 'seed', so + k, I.V.bv('secret[%d]' % k, 8))
        st.mem.new('poly', 128, 0)
        put(st, 'poly', 0, I.V.bv('poly0', 64))
        outs = I.run(f, P.by_type(f, seed=seed, poly=Ptr('poly', 0)), st)
        if 'layout' in want:
            rep.rule('PACK-LAYOUT', 'polyseed_data_to_poly on a symbolic seed: coefficient i (1..15) bit 10-b = secret bit 10(i-1)+b '
                     '(MSB-first from secret[0], low 6 bits of the 19th byte), bit 0 = bit 14-(i-1) of (features<<10|birthday); bits >= 11 '
                     'zero; coeff[0] untouched; the result depends on no other input (padding, top bits of secret[18], checksum); every '
                     'array access has a concrete in-bounds offset')
            if len(outs) != 1:
                rep.fail('packer is straight-line on symbolic data', wf, f.name, key='PACK-LAYOUT|paths')
            else:
                o = outs[0]
                for i in range(1, 16):
                    c = get(o.state, 'poly', 8 * i, 8)
                    for j in range(64):
                        want_b = I.V.bit(lay[i][j]) if j < GF_BITS else 0
                        rep.check(c.bits[j] == want_b, 'coeff[%d] bit %d = %s' % (i, j, lay[i][j] if j < GF_BITS else '0'), wf,
                                  'polyseed_data_to_poly coeff[%d] bit %d' % (i, j), detail={'found': I.V.show(c.bits[j])},
                                  sample={'coeff': i, 'bit': j, 'source': I.V.show(c.bits[j])} if j < 2 else None,
                                  key='PACK-LAYOUT|coeff%d.bit%d' % (i, j))
                c0 = get(o.state, 'poly', 0, 8)
                rep.check(c0.bits == I.V.bv('poly0', 64).bits, 'coeff[0] is not written by the packer', wf, f.name, key='PACK-LAYOUT|coeff0')
                bad = [a for a in I.accesses if not a[6]]
                rep.check(not bad and not o.state.events, 'all %d memory accesses in bounds, none uninitialised' % len(I.accesses), wf, f.name,
                          detail=(bad + o.state.events)[:3], key='PACK-LAYOUT|bounds')
                unchanged = o.state.mem.objs['seed'] == st.mem.objs['seed'] if o.state is not st else True
                rep.check(unchanged, 'the seed object is not modified', wf, f.name)
                rep.info['packer_accesses'] = len(I.accesses)
        if 'inverse' in want:
            rep.rule('PACK-INV', 'polyseed_poly_to_data o polyseed_data_to_poly is the identity on the 165 data bits and yields a '
                     'canonical seed (secret[18] bits 6-7 = 0, secret[19..31] = 0, birthday < 2^10, features < 2^5, checksum = coeff[0]) with every '
                     'byte of the seed object written; polyseed_data_to_poly o polyseed_poly_to_data is the identity on bits 0-10 of coefficients 1..15')
            # unpack arbitrary 11-bit coefficients into an UNINIT seed object
            I2 = Interp(P); st2 = State()
            p = symbolic_poly(I2, st2)
            size = P.structs[DATA_STRUCT]['size']
            st2.mem.new('out', size, U)
            outs2 = I2.run(g, P.by_type(g, poly=p, seed=Ptr('out', 0)), st2)
            if len(outs2) != 1:
                rep.fail('unpacker is straight-line on symbolic data', wg, g.name, key='PACK-INV|paths'); return
            o2 = outs2[0]
            fo2 = field_offsets(P, DATA_STRUCT)
            inv = {}
            for i in range(1, 16):
                for j in range(GF_BITS): inv[lay[i][j]] = 'c%d.%d' % (i, j)
            def expect(field, k, j):
                nm = ('%s.%d' % (field, j)) if field != 'secret' else 'secret[%d].%d' % (k, j)
                return I2.V.bit(inv[nm]) if nm in inv else 0
            nuninit = sum(1 for c in o2.state.mem.objs['out'] if not isinstance(c, tuple) and any(b == U for b in c))
            rep.check(nuninit == 0, 'every byte of the seed object is written by the unpacker (no UNINIT byte remains)', wg, g.name,
                      detail={'uninit_bytes': nuninit}, key='PACK-INV|init')
            for field in ('birthday', 'features'):
                o_, sz = fo2[field]
                v = get(o2.state, 'out', o_, sz)
                for j in range(8 * sz):
                    rep.check(v.bits[j] == expect(field, 0, j), '%s bit %d recovered from its word' % (field, j), wg,
                              'polyseed_poly_to_data %s bit %d' % (field, j), detail={'found': I2.V.show(v.bits[j])}, key='PACK-INV|%s.%d' % (field, j))
            o_, sz = fo2['secret']
            for k in range(sz):
                v = get(o2.state, 'out', o_ + k, 1)
                for j in range(8):
                    rep.check(v.bits[j] == expect('secret', k, j), 'secret[%d] bit %d recovered / zero padding' % (k, j), wg,
                              'polyseed_poly_to_data secret[%d] bit %d' % (k, j), detail={'found': I2.V.show(v.bits[j])},
                              sample={'byte': k, 'bit': j, 'source': I2.V.show(v.bits[j])} if (k, j) in ((0, 7), (18, 5), (18, 7)) else None,
                              key='PACK-INV|secret%d.%d' % (k, j))
            o_, sz = fo2['checksum']
            v = get(o2.state, 'out', o_, sz)
            rep.check(v.bits == get(st2, 'poly', 0, 8).bits, 'checksum = coeff[0]', wg, g.name, key='PACK-INV|checksum')
            bad = [a for a in I2.accesses if not a[6]]
            rep.check(not bad and not o2.state.events, 'all %d memory accesses of the unpacker in bounds, no uninitialised read' % len(I2.accesses),
                      wg, g.name, detail=(bad + o2.state.events)[:3], key='PACK-INV|bounds')
            # other direction: pack(unpack(p)) = p on bits 0..10 of coefficients 1..15
            I3 = Interp(P, I2.V)
            st3 = o2.state
            st3.mem.new('poly2', 128, 0)
            outs3 = I3.run(f, P.by_type(f, seed=Ptr('out', 0), poly=Ptr('poly2', 0)), st3)
            ok = len(outs3) == 1
            if ok:
                for i in range(1, 16):
                    c = get(outs3[0].state, 'poly2', 8 * i, 8)
                    w = [I2.V.bit('c%d.%d' % (i, j)) for j in range(GF_BITS)] + [0] * (64 - GF_BITS)
                    rep.check(c.bits == w, 'pack(unpack(p)).coeff[%d] = p.coeff[%d]' % (i, i), wf, 'round trip coefficient %d' % i,
                              detail={'found': I2.V.show_bv(c)[:11]}, key='PACK-INV|roundtrip%d' % i)
            else:
                rep.fail('packer straight-line on unpacked data', wf, f.name)


# =====================================================================  C06: storage codec
def storage(ctx, rep):
    for cfg in cfgs_for(ctx):
        P = ctx.prog(cfg)
        if cfg not in rep.configs: rep.configs.append(cfg)
        fs = P.fn('polyseed_data_store'); fl = P.fn('polyseed_data_load')
        ws = '%s:%s' % ((fs.file or '').replace('/repo/', ''), fs.line); wl = '%s:%s' % ((fl.file or '').replace('/repo/', ''), fl.line)
        status = P.enum('polyseed_status')
        rep.rule('STORE-IMG', 'polyseed_data_store on a canonical symbolic seed writes exactly "POLYSEED" || LE16(features<<10|birthday) '
                 '|| secret[0..18] || FF || LE16(0x7000|checksum) into the 32 output bytes (bit for bit), reads nothing else, writes nothing else')
        I = Interp(P); st = State()
        seed, fo = symbolic_seed(I, st, canonical=True)
        st.mem.new('storage', 32, U)
        I.contract = {'storage'}      # (32 = POLYSEED_SIZE of the public header, ABI-1) the caller's buffer has exactly the size of the public typedef: an access outside it is a violation (MEM-1), not an engine problem
        outs = I.run(fs, P.by_type(fs, seed=seed, storage=Ptr('storage', 0)), st)
        img = None
        if len(outs) != 1:
            rep.fail('store is straight-line', ws, fs.name)
        else:
            o = outs[0]
            img = [get(o.state, 'storage', k, 1).bits for k in range(32)]
            exp = []
            for c in b'POLYSEED': exp.append([(c >> j) & 1 for j in range(8)])
            v1 = [I.V.bit('birthday.%d' % j) for j in range(10)] + [I.V.bit('features.%d' % j) for j in range(5)] + [0]
            exp += [v1[:8], v1[8:]]
            for k in range(19):
                exp.append([I.V.bit('secret[%d].%d' % (k, j)) if not (k == 18 and j >= 6) else 0 for j in range(8)])
            exp.append([1] * 8)
            v2 = [I.V.bit('checksum.%d' % j) for j in range(11)] + [0, 1, 1, 1, 0]
            exp += [v2[:8], v2[8:]]
            for k in range(32):
                rep.check(img[k] == exp[k], 'stored byte %d = %s' % (k, [I.V.show(b) for b in exp[k]]), ws, 'polyseed_data_store byte %d' % k,
                          detail={'found': [I.V.show(b) for b in img[k]]}, sample={'byte': k, 'bits': [I.V.show(b) for b in img[k]]} if k in (8, 9, 28, 30, 31) else None,
                          key='STORE-IMG|byte%d' % k)
            bad = [a for a in I.accesses if not a[6]]
            rep.check(not bad and not o.state.events, 'store: all accesses in bounds / initialised', ws, fs.name, detail=(bad + o.state.events)[:3])

        rep.rule('LOAD-INV', 'polyseed_data_load on 256 symbolic input bits: every non-OK exit returns POLYSEED_ERR_FORMAT; on the OK exit '
                 'birthday/features/secret[0..18]/checksum are the identity of the corresponding input bits, secret[19..31] = 0, every byte '
                 'of the seed object is written, and every one of the 256 input bits is either carried into the seed or constrained by '
                 'the accept-path guards to the constant that store writes there (no input bit is ignored): store(load(b)) = b')
        I = Interp(P); st = State()
        st.mem.new('storage', 32, 0)
        for k in range(32): put(st, 'storage', k, I.V.bv('in[%d]' % k, 8))
        size = P.structs[DATA_STRUCT]['size']
        st.mem.new('seed', size, U)
        I.contract = {'storage'}
        outs = I.run(fl, P.by_type(fl, storage=Ptr('storage', 0), seed=Ptr('seed', 0)), st)
        oks = []; nform = 0
        ACC, REJ = codec_values(fl, status)
        for o in outs:
            rv = o.ret.concrete() if isinstance(o.ret, BV) else None
            if rv == ACC: oks.append(o)
            elif rv == REJ: nform += 1
            else:
                rep.fail('polyseed_data_load returns only OK or ERR_FORMAT', wl, fl.name, detail=str(o.ret), key='LOAD-INV|status')
        rep.check(len(oks) == 1 and nform >= 1, 'one accepting partition and %d rejecting partitions (all ERR_FORMAT)' % nform, wl, fl.name,
                  detail={'ok': len(oks), 'format': nform}, sample={'accept': len(oks), 'reject': nform}, key='LOAD-INV|partitions')
        rep.info['load_partitions'] = len(outs)
        if len(oks) == 1:
            o = oks[0]
            C = o.state.cons
            # value of every input bit on the accept path after guard refinement
            inbits = {}
            for k in range(32):
                for j in range(8):
                    inbits[(k, j)] = C.reduce(I.V.bit('in[%d].%d' % (k, j)))
            fo = field_offsets(P, DATA_STRUCT)
            nuninit = sum(1 for c in o.state.mem.objs['seed'] if not isinstance(c, tuple) and any(b == U for b in c))
            rep.check(nuninit == 0, 'accept path writes every byte of the seed object', wl, fl.name, detail={'uninit_bytes': nuninit}, key='LOAD-INV|init')
            # re-serialise the loaded seed with the library's own store and compare with the input under the accept guards
            I2 = Interp(P, I.V)
            st2 = o.state
            st2.mem.new('again', 32, U)
            outs2 = I2.run(fs, P.by_type(fs, seed=Ptr('seed', 0), storage=Ptr('again', 0)), st2)
            if len(outs2) != 1:
                rep.fail('store straight-line on loaded seed', ws, fs.name)
            else:
                for k in range(32):
                    got = [C.reduce(b) for b in get(outs2[0].state, 'again', k, 1).bits]
                    want = [inbits[(k, j)] for j in range(8)]
                    rep.check(got == want, 'store(load(b)) byte %d = b[%d] for every accepted b' % (k, k), wl, 'load/store byte %d' % k,
                              detail={'stored': [I.V.show(b) for b in got], 'input_under_guards': [I.V.show(b) for b in want]},
                              sample={'byte': k, 'input_under_accept_guards': [I.V.show(b) for b in want]} if k in (0, 9, 28, 29, 31) else None,
                              key='LOAD-INV|byte%d' % k)
            # canonical post-state
            o_, sz = fo['secret']
            pad = get(o.state, 'seed', o_ + 19, sz - 19)
            rep.check(all(b == 0 for b in pad.bits), 'secret[19..31] = 0 after load', wl, fl.name, key='LOAD-INV|padding')
            b18 = [C.reduce(b) for b in get(o.state, 'seed', o_ + 18, 1).bits]
            rep.check(b18[6] == 0 and b18[7] == 0, 'secret[18] bits 6-7 are zero on the accept path', wl, fl.name, key='LOAD-INV|clear')
            bd = get(o.state, 'seed', fo['birthday'][0], 4); ft = [C.reduce(b) for b in get(o.state, 'seed', fo['features'][0], 4).bits]
            rep.check(all(b == 0 for b in bd.bits[10:]) and all(b == 0 for b in ft[5:]), 'birthday < 2^10 and features < 2^5 on the accept path', wl, fl.name,
                      key='LOAD-INV|ranges')
            ck = get(o.state, 'seed', fo['checksum'][0], 8)
            rep.check(all(b == 0 for b in ck.bits[11:]), 'checksum < 2^11', wl, fl.name, key='LOAD-INV|checksum-range')
            bad = [a for a in I.accesses if not a[6]]
            rep.check(not bad, 'load reads exactly bytes 0..31 of the input (all %d accesses in bounds)' % len(I.accesses), wl, fl.name, detail=bad[:3],
                      key='LOAD-INV|bounds')
            ev = [e for e in o.state.events]
            rep.check(not ev, 'no uninitialised read on the accept path', wl, fl.name, detail=ev[:3], key='LOAD-INV|uninit')


def storage_total(ctx, rep):
    """load o store = identity with the OK exit only: every canonical seed's image is accepted"""
    for cfg in cfgs_for(ctx):
        P = ctx.prog(cfg)
        if cfg not in rep.configs: rep.configs.append(cfg)
        fs = P.fn('polyseed_data_store'); fl = P.fn('polyseed_data_load')
        wl = '%s:%s' % ((fl.file or '').replace('/repo/', ''), fl.line)
        status = P.enum('polyseed_status')
        rep.rule('LOAD-TOTAL', 'polyseed_data_load applied to the symbolic image that polyseed_data_store writes for a canonical seed (any 150-bit '
                 'secret, any birthday < 2^10, any of the 32 feature values - encrypted or not -, any check value) has the OK exit only and returns '
                 'the identical fields: no serialization of a seed the library can hold is rejected')
        I = Interp(P); st = State()
        seed, fo = symbolic_seed(I, st, canonical=True)
        st.mem.new('img', 32, U)
        o1 = I.run(fs, P.by_type(fs, seed=seed, storage=Ptr('img', 0)), st)
        if len(o1) != 1:
            rep.fail('store straight-line', wl, fs.name); continue
        st2 = o1[0].state
        st2.mem.new('seed2', P.structs[DATA_STRUCT]['size'], U)
        outs = I.run(fl, P.by_type(fl, storage=Ptr('img', 0), seed=Ptr('seed2', 0)), st2)
        rets = sorted(set(str(o.ret.concrete()) for o in outs))
        ACC, REJ = codec_values(fl, status)
        rep.check(len(outs) == 1 and outs[0].ret.concrete() == ACC, 'load(store(seed)) has the OK exit only', wl, 'polyseed_data_load on stored images',
                  detail={'exits': rets, 'rejecting_guards': [o.state.cons.opaque[-1:] for o in outs if o.ret.concrete() != ACC][:3]},
                  sample={'exits': rets}, key='LOAD-TOTAL|exits')
        for o in outs:
            if o.ret.concrete() != ACC: continue
            same = o.state.mem.objs['seed2'] == o.state.mem.objs['seed']
            rep.check(same, 'load(store(seed)) == seed, all 48 bytes', wl, 'polyseed_data_load o polyseed_data_store', key='LOAD-TOTAL|identity')
