"""Obligation bookkeeping, evidence file, known findings, replay files, exit protocol."""
import json, os, time, sys, hashlib
from .frontend import AnalysisBroken, VERIF

EVID = os.environ.get('PSA_EVIDENCE_DIR') or os.path.join(VERIF, 'evidence')
KNOWN = os.path.join(VERIF, 'known_findings.json')


class Report:
    def __init__(self, pid, tier, level, seed=0):
        self.pid = pid; self.tier = tier; self.level = level; self.seed = seed
        self.t0 = time.time()
        self.obligations = 0; self.discharged = 0
        self.violations = []          # dicts
        self.rules = {}               # rule id -> {text, instances, obligations, discharged}
        self.samples = []
        self.info = {}                # extra coverage keys
        self.assumptions = []
        self.notes = []
        self.configs = []
        self._cur = None

    # ---- rule scoping
    def rule(self, rid, text):
        r = self.rules.setdefault(rid, {'text': text, 'instances': 0, 'obligations': 0, 'discharged': 0})
        self._cur = rid
        return r

    def instances(self, n, floor, what):
        r = self.rules[self._cur]
        r['instances'] += n
        r.setdefault('floor', floor)
        if n < floor:
            raise AnalysisBroken('rule %s matched %d %s, below the confirmed floor %d (vacuous rule / anchor lost)' % (
                self._cur, n, what, floor))

    def ok(self, desc, sample=None):
        self.obligations += 1; self.discharged += 1
        r = self.rules[self._cur]; r['obligations'] += 1; r['discharged'] += 1
        if sample is not None and len([s for s in self.samples if s.get('rule') == self._cur]) < 3:
            self.samples.append({'rule': self._cur, 'obligation': desc, 'detail': sample})

    def fail(self, desc, where, construct, detail=None, key=None):
        """where: 'file:line'; construct: function / call site / path; key: stable identity for known-findings"""
        self.obligations += 1
        r = self.rules[self._cur]; r['obligations'] += 1
        v = {'property': self.pid, 'rule': self._cur, 'rule_text': r['text'], 'obligation': desc, 'where': where,
             'construct': construct, 'detail': detail, 'config': self.configs[-1] if self.configs else None,
             'key': key or ('%s|%s' % (self._cur, construct))}
        # de-duplicate the same construct reported from several configurations
        for o in self.violations:
            if o['key'] == v['key'] and o['where'] == v['where']:
                o.setdefault('also_in_configs', []).append(v['config'])
                return
        self.violations.append(v)

    def check(self, cond, desc, where, construct, detail=None, sample=None, key=None):
        if cond:
            self.ok(desc, sample)
        else:
            self.fail(desc, where, construct, detail, key)
        return cond

    # ---- finishing
    def finish(self, explanation, trusted_base, checker_cmd):
        os.makedirs(EVID, exist_ok=True)
        known = {'known': [], 'fixed': []}
        if os.path.exists(KNOWN):
            known = json.load(open(KNOWN))
        kn = [k for k in known.get('known', []) if k.get('property') == self.pid]
        new = []; hit = []
        for v in self.violations:
            m = [k for k in kn if k['key'] == v['key']]
            if m:
                hit.append((v, m[0]))
            else:
                new.append(v)
        lines = []
        for v, k in hit:
            lines.append('KNOWN-FINDING: property=%s %s' % (self.pid, k.get('what', v['obligation'])))
        rdir = os.path.join(EVID, 'replay'); os.makedirs(rdir, exist_ok=True)
        for f in os.listdir(rdir):
            if f.startswith(self.pid + '-'):
                os.remove(os.path.join(rdir, f))
        for n, v in enumerate(new):
            p = os.path.join(rdir, '%s-%d.json' % (self.pid, n))
            json.dump(v, open(p, 'w'), indent=1, ensure_ascii=False)
            lines.append('VIOLATION property=%s replay=%s' % (self.pid, p))
            lines.append('  rule %s at %s in %s: %s%s' % (v['rule'], v['where'], v['construct'], v['obligation'],
                                                        ('  [' + str(v['detail'])[:300] + ']') if v['detail'] else ''))
        cov = {
            'obligations': self.obligations, 'discharged': self.discharged,
            'checker_cmd': checker_cmd, 'trusted_base': trusted_base,
            'explanation': explanation,
            'rules': self.rules, 'samples': self.samples[:40] or [{'note': 'no obligations sampled'}],
            'configurations': self.configs, 'exhaustive': True,
        }
        cov.update(self.info)
        ev = {'property_id': self.pid, 'tier': self.tier, 'seed': self.seed, 'level': self.level,
              'coverage': cov, 'assumptions': self.assumptions, 'wall_s': round(time.time() - self.t0, 3),
              'violations': len(new), 'known_findings_hit': [k['key'] for _, k in hit], 'notes': self.notes}
        json.dump(ev, open(os.path.join(EVID, self.pid + '.json'), 'w'), indent=1, ensure_ascii=False)
        for l in lines:
            print(l)
        print('%s %s: %d obligations, %d discharged, %d violation(s), %d known finding(s), %d rule(s), %.1fs' % (
            self.pid, self.tier, self.obligations, self.discharged, len(new), len(hit), len(self.rules), time.time() - self.t0))
        return 1 if new else 0
