"""C11: birthday arithmetic by interval abstract interpretation over a partition of the clock domain into the 1024 month intervals."""
from .frontend import AnalysisBroken
from .interval import IntervalInterp, IUnmodelled
from .ir import base_name, DATA_STRUCT
from .rules_cmp import addr_base, inst_of

EPOCH = 1635768000      # 1 November 2021 12:00 UTC  (published constant, property text)
STEP = 2629746          # 1/12 of the mean Gregorian year (published constant)
MONTHS = 1024


def birthday(ctx, rep):
    for cfg in (ctx.configs('path') if ctx.tier == 'thorough' else ['NsS']):
        P = ctx.prog(cfg)
        if cfg not in rep.configs: rep.configs.append(cfg)
        encs = P.fns('birthday_encode'); decs = P.fns('birthday_decode')
        rep.rule('BDAY-RANGE', 'interval abstract interpretation of birthday_encode / birthday_decode over a partition of the 2^64 clock values: for each of '
                 'the 1024 month intervals [E+kS, E+(k+1)S-1] the encoder returns exactly k on the whole interval and the decoder maps k to exactly '
                 'E+kS (hence B <= t < B+S for every t in range); [0, E-1] and {2^64-1} encode to 0; for every t from the end of the range to 2^64-2 the '
                 'encoder returns some k in 0..1023 and E+1023*S <= t (never later than t); the decoder is computed in 64 bits')
        rep.instances(len(encs), 1, 'copies of birthday_encode')
        for f in encs:
            w = '%s:%s' % ((f.file or '').replace('/repo/', ''), f.line)
            II = IntervalInterp(P)
            bad = []
            for k in range(MONTHS):
                lo = EPOCH + k * STEP; hi = lo + STEP - 1
                try:
                    r, _ = II.run(f, [(lo, hi)])
                except IUnmodelled as e:
                    raise
                if r != (k, k): bad.append((k, lo, hi, r))
            rep.check(not bad, 'encode([E+kS, E+(k+1)S-1]) = {k} for all 1024 months', w, '%s month intervals' % base_name(f.name),
                      detail=[{'month': k, 'clock_interval': [lo, hi], 'encoder_returns': list(r)} for k, lo, hi, r in bad[:4]],
                      sample={'month': 563, 'interval': [EPOCH + 563 * STEP, EPOCH + 564 * STEP - 1], 'result': 563},
                      key='BDAY-RANGE|months|%s' % (bad[0][0] if bad else ''))
            r, _ = II.run(f, [(0, EPOCH - 1)])
            rep.check(r == (0, 0), 'clock before the epoch encodes to 0', w, '%s before epoch' % base_name(f.name), detail=list(r), key='BDAY-RANGE|before-epoch')
            r, _ = II.run(f, [((1 << 64) - 1, (1 << 64) - 1)])
            rep.check(r == (0, 0), 'the (time_t)-1 error value encodes to 0', w, '%s error value' % base_name(f.name), detail=list(r), key='BDAY-RANGE|minus-one')
            end = EPOCH + MONTHS * STEP
            r, _ = II.run(f, [(end, (1 << 64) - 2)])
            rep.check(0 <= r[0] and r[1] <= MONTHS - 1, 'after the range the encoder still returns a month index 0..1023 (so the birthday is never later than t)', w,
                      '%s after range' % base_name(f.name), detail=list(r), key='BDAY-RANGE|after-range')
            rep.check(f.params[0]['bits'] == 64 and f.d['ret_bits'] >= 10, 'encoder takes a 64-bit clock', w, f.name)
        # the decoder is checked through the public getter (whatever helpers it uses): polyseed_get_birthday(seed with birthday = k) = E + k*S
        fo = {n: o for o, (n, sz) in P.field_table(DATA_STRUCT).items()}
        G = P.fn('polyseed_get_birthday')
        w = '%s:%s' % ((G.file or '').replace('/repo/', ''), G.line)
        bad = []
        for k in range(MONTHS):
            II = IntervalInterp(P, fields={(0, fo['birthday']): (k, k)})
            r, _ = II.run(G, [('ptr', 0, 0)])
            if r != (EPOCH + k * STEP,) * 2: bad.append((k, r))
        rep.check(not bad, 'polyseed_get_birthday(seed with month index k) = E + k*S for k = 0..1023', w, base_name(G.name), detail=bad[:3],
                  sample={'k': 1023, 'decoded': EPOCH + 1023 * STEP}, key='BDAY-RANGE|decode')
        rep.check(G.d['ret_bits'] == 64, 'the birthday is returned as a 64-bit time', w, G.name, detail=G.d['ret_bits'], key='BDAY-RANGE|width')
        II = IntervalInterp(P, fields={(0, fo['birthday']): (0, MONTHS - 1), (0, fo['features']): (0, 31)})
        r, _ = II.run(G, [('ptr', 0, 0)])
        rep.check(r[0] >= EPOCH and r[1] <= EPOCH + (MONTHS - 1) * STEP, 'the getter reads nothing but the birthday field and stays within the range', w, base_name(G.name), detail=list(r))

