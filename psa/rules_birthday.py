"""C11: birthday arithmetic by interval abstract interpretation over a partition of the clock domain into the 1024 month intervals."""
from .frontend import AnalysisBroken
from .interval import IntervalInterp, IUnmodelled
from .ir import base_name, DATA_STRUCT
from .rules_cmp import addr_base, inst_of

EPOCH = 1635768000      # 1 November 2021 12:00 UTC  (published constant, property text)
STEP = 2629746          # 1/12 of the mean Gregorian year (published constant)
MONTHS = 1024


def birthday(ctx, rep):
    for cfg in (ctx.configs('path') if ctx.tier == 'thorough' else ['NsS']):
        P = ctx.prog(cfg)
        if cfg not in rep.configs: rep.configs.append(cfg)
        encs = P.fns('birthday_encode'); decs = P.fns('birthday_decode')
        rep.rule('BDAY-RANGE', 'interval abstract interpretation of birthday_encode / birthday_decode over a partition of the 2^64 clock values: for each of '
                 'the 1024 month intervals [E+kS, E+(k+1)S-1] the encoder returns exactly k on the whole interval and the decoder maps k to exactly '
                 'E+kS (hence B <= t < B+S for every t in range); [0, E-1] and {2^64-1} encode to 0; for every t from the end of the range to 2^64-2 the '
                 'encoder returns some k in 0..1023 and E+1023*S <= t (never later than t); the decoder is computed in 64 bits')
        rep.instances(len(encs), 1, 'copies of birthday_encode'); rep.instances(len(decs), 1, 'copies of birthday_decode')
        for f in encs:
            w = '%s:%s' % ((f.file or '').replace('/repo/', ''), f.line)
            II = IntervalInterp(P)
            bad = []
            for k in range(MONTHS):
                lo = EPOCH + k * STEP; hi = lo + STEP - 1
                try:
                    r, _ = II.run(f, [(lo, hi)])
                except IUnmodelled as e:
                    raise
                if r != (k, k): bad.append((k, lo, hi, r))
            rep.check(not bad, 'encode([E+kS, E+(k+1)S-1]) = {k} for all 1024 months', w, '%s month intervals' % base_name(f.name),
                      detail=[{'month': k, 'clock_interval': [lo, hi], 'encoder_returns': list(r)} for k, lo, hi, r in bad[:4]],
                      sample={'month': 563, 'interval': [EPOCH + 563 * STEP, EPOCH + 564 * STEP - 1], 'result': 563},
                      key='BDAY-RANGE|months|%s' % (bad[0][0] if bad else ''))
            r, _ = II.run(f, [(0, EPOCH - 1)])
            rep.check(r == (0, 0), 'clock before the epoch encodes to 0', w, '%s before epoch' % base_name(f.name), detail=list(r), key='BDAY-RANGE|before-epoch')
            r, _ = II.run(f, [((1 << 64) - 1, (1 << 64) - 1)])
            rep.check(r == (0, 0), 'the (time_t)-1 error value encodes to 0', w, '%s error value' % base_name(f.name), detail=list(r), key='BDAY-RANGE|minus-one')
            end = EPOCH + MONTHS * STEP
            r, _ = II.run(f, [(end, (1 << 64) - 2)])
            rep.check(0 <= r[0] and r[1] <= MONTHS - 1, 'after the range the encoder still returns a month index 0..1023 (so the birthday is never later than t)', w,
                      '%s after range' % base_name(f.name), detail=list(r), key='BDAY-RANGE|after-range')
            rep.check(f.params[0]['bits'] == 64 and f.d['ret_bits'] >= 10, 'encoder takes a 64-bit clock', w, f.name)
        for g in decs:
            w = '%s:%s' % ((g.file or '').replace('/repo/', ''), g.line)
            II = IntervalInterp(P)
            bad = [k for k in range(MONTHS) if II.run(g, [(k, k)])[0] != (EPOCH + k * STEP,) * 2]
            rep.check(not bad, 'decode(k) = E + k*S for k = 0..1023', w, base_name(g.name), detail=[(k, II.run(g, [(k, k)])[0]) for k in bad[:3]],
                      sample={'k': 1023, 'decoded': EPOCH + 1023 * STEP}, key='BDAY-RANGE|decode')
            rep.check(g.d['ret_bits'] == 64, 'decoder returns a 64-bit time', w, g.name, detail=g.d['ret_bits'], key='BDAY-RANGE|width')

        rep.rule('BDAY-API', 'polyseed_get_birthday returns birthday_decode(seed->birthday) of the field, reading nothing else')
        f = P.fn('polyseed_get_birthday')
        rets = [i for i in f.all_insts() if i.op == 'ret']
        ok = False
        if len(rets) == 1 and rets[0].ops and rets[0].ops[0]['k'] == 'i':
            c = f.insts[rets[0].ops[0]['id']]
            if c.op == 'call' and P.call_target(c)[0] == 'direct' and base_name(P.call_target(c)[1]) == 'birthday_decode':
                a = inst_of(f, c.ops[0])
                while a is not None and a.op in ('zext', 'trunc'): a = inst_of(f, a.ops[0])
                if a is not None and a.op == 'load':
                    base, off = addr_base(f, a.ops[0])
                    fo = {n: o for o, (n, s) in P.field_table(DATA_STRUCT).items()}
                    ok = base == ('a', 0) and off == fo['birthday']
        rep.check(ok, 'polyseed_get_birthday = birthday_decode(seed->birthday)', '%s:%s' % ((f.file or '').replace('/repo/', ''), f.line), f.name, key='BDAY-API|getter')
