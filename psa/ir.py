"""Program model over irfacts JSON: functions, CFG, dominators, call resolution,
whole-program inclusion-based points-to (Andersen, object-granular), path enumeration."""
import collections, re
from .frontend import AnalysisBroken

DEP_STRUCT = 'struct.polyseed_dependency'   # public header name (include/polyseed.h)
DATA_STRUCT = 'struct.polyseed_data'
LANG_STRUCT = 'struct.polyseed_lang'


class Inst:
    __slots__ = ('d', 'fn', 'bb', 'idx', 'id', 'op', 'ops')

    def __init__(self, d, fn, bb, idx):
        self.d = d; self.fn = fn; self.bb = bb; self.idx = idx
        self.id = d['id']; self.op = d['op']; self.ops = d['ops']

    def get(self, k, default=None):
        return self.d.get(k, default)

    @property
    def line(self):
        return self.d.get('line')

    @property
    def loc(self):
        f = self.d.get('file') or self.fn.file or '?'
        if f.startswith('/'):
            for pre in ('/repo/',):
                if f.startswith(pre):
                    f = f[len(pre):]
            i = f.find('/src/')
            if i >= 0 and not f.startswith('src/'):
                f = f[i + 1:]
        return '%s:%s' % (f, self.d.get('line', '?'))

    def __repr__(self):
        return '<%s#%d %s @%s>' % (self.fn.name, self.id, self.op, self.loc)


class Function:
    def __init__(self, d, prog):
        self.d = d; self.prog = prog
        self.name = d['name']; self.decl = d['decl']
        self.file = d.get('file'); self.line = d.get('line')
        self.params = d['params']
        self.local = d['linkage'] == 'local'
        self.blocks = []          # list of list[Inst]
        self.succs = {}; self.preds = collections.defaultdict(list)
        self.insts = {}
        if not self.decl:
            for b in d['blocks']:
                lst = [Inst(i, self, b['id'], k) for k, i in enumerate(b['insts'])]
                self.blocks.append(lst)
                self.succs[b['id']] = list(b['succs'])
                for i in lst:
                    self.insts[i.id] = i
            for b, ss in self.succs.items():
                for s in ss:
                    self.preds[s].append(b)
        self._dom = None; self._pdom = None

    def all_insts(self):
        for b in self.blocks:
            for i in b:
                yield i

    def term(self, b):
        return self.blocks[b][-1]

    def ret_blocks(self):
        return [b for b in range(len(self.blocks)) if self.term(b).op == 'ret']

    def has_loop(self):
        color = {}
        def dfs(b):
            color[b] = 1
            for s in self.succs[b]:
                if color.get(s) == 1:
                    return True
                if s not in color and dfs(s):
                    return True
            color[b] = 2
            return False
        return dfs(0)

    # --- dominators (iterative; tiny graphs)
    def dominators(self):
        if self._dom is None:
            n = len(self.blocks)
            allb = set(range(n))
            dom = {b: set(allb) for b in allb}
            dom[0] = {0}
            ch = True
            while ch:
                ch = False
                for b in range(1, n):
                    ps = [dom[p] for p in self.preds[b]]
                    new = (set.intersection(*ps) if ps else set()) | {b}
                    if new != dom[b]:
                        dom[b] = new; ch = True
            self._dom = dom
        return self._dom

    def inst_dominates(self, a, b):
        """instruction a dominates instruction b"""
        if a.bb == b.bb:
            return a.idx <= b.idx
        return a.bb in self.dominators()[b.bb]

    # --- instruction-level reachability avoiding a set of instructions
    def reach_ret_avoiding(self, start, avoid_ids, from_after=True):
        """Is there a CFG path from (just after) instruction `start` to a ret that executes none of avoid_ids?
        Returns the offending path (list of block ids) or None."""
        def scan(b, k0):
            for i in self.blocks[b][k0:]:
                if i.id in avoid_ids:
                    return 'blocked'
                if i.op == 'ret':
                    return 'ret'
                if i.op == 'unreachable' or (i.op == 'call' and i.get('noreturn')):
                    return 'blocked'
            return 'fall'
        k0 = start.idx + (1 if from_after else 0)
        r = scan(start.bb, k0)
        if r == 'ret':
            return [start.bb]
        if r == 'blocked':
            return None
        seen = set(); stack = [(s, [start.bb, s]) for s in self.succs[start.bb]]
        while stack:
            b, path = stack.pop()
            if b in seen:
                continue
            seen.add(b)
            r = scan(b, 0)
            if r == 'ret':
                return path
            if r == 'blocked':
                continue
            for s in self.succs[b]:
                if s not in seen:
                    stack.append((s, path + [s]))
        return None

    # --- path enumeration (each back edge at most `unroll` times)
    def paths(self, limit=4096, unroll=0):
        out = []
        def rec(b, path, cnt):
            if len(out) > limit:
                raise AnalysisBroken('path budget exceeded in %s' % self.name)
            path = path + [b]
            t = self.term(b)
            if t.op == 'ret' or t.op == 'unreachable':
                out.append(path); return
            for s in self.succs[b]:
                c = cnt.get((b, s), 0)
                if s in path:
                    if c >= unroll:
                        continue
                    c2 = dict(cnt); c2[(b, s)] = c + 1
                    rec(s, path, c2)
                else:
                    rec(s, path, cnt)
        rec(0, [], {})
        return out


def base_name(n):
    return re.sub(r'\.\d+$', '', n)


def vkey(v):
    k = v['k']
    if k == 'i': return ('i', v['id'])
    if k == 'a': return ('a', v['n'])
    return None


class Program:
    def __init__(self, facts):
        self.facts = facts
        self.cfg = facts.get('_cfg')
        self.structs = facts['structs']
        self.ditypes = facts['ditypes']
        self.globals = {g['name']: g for g in facts['globals']}
        self.functions = {f['name']: Function(f, self) for f in facts['functions']}
        self.defined = {n: f for n, f in self.functions.items() if not f.decl}
        self._pts = None
        if DEP_STRUCT not in self.structs:
            raise AnalysisBroken('anchor %s (dependency table type) not found' % DEP_STRUCT)
        self.dep_fields = self.field_table(DEP_STRUCT)
        # pure dependency wrappers are resolved at their call sites; their bodies are not analysed as library functions
        self.wrapper_defs = {n: self.defined[n] for n in self.dep_wrappers()}
        for n in self.wrapper_defs:
            del self.defined[n]

    # struct field names from debug info, keyed by byte offset
    def field_table(self, sname):
        di = self.ditypes.get(sname.split('.', 1)[1])
        if not di:
            raise AnalysisBroken('no debug-info members for %s' % sname)
        return {m['off_bits'] // 8: (m['name'], m['size_bits'] // 8) for m in di['members']}

    def field_at(self, sname, off):
        for o, (n, sz) in self.field_table(sname).items():
            if o <= off < o + sz:
                return n, off - o
        return None, None

    def enum(self, ename):
        di = self.ditypes.get(ename)
        if not di:
            raise AnalysisBroken('enum %s not found' % ename)
        return {m['name']: m['value'] for m in di['members']}

    def members(self, sname):
        """debug-info members of a struct: {name: (offset in bits, size in bits)} (bit-fields have sub-byte offsets / sizes)"""
        di = self.ditypes.get(sname.split('.', 1)[1])
        if not di: raise AnalysisBroken('no debug-info members for %s' % sname)
        return {m['name']: (m['off_bits'], m['size_bits']) for m in di['members']}

    def flag_load(self, sname, byte_off, nbytes, values):
        """value of a load of nbytes at byte_off of a struct whose (possibly bit-field) flag members are given by values {member name: bit term}: a list of
        nbytes*8 bit terms, or None if no given member lies in that range; members not given read as 0"""
        mem = self.members(sname)
        bits = [0] * (8 * nbytes); hit = False
        for nm, val in values.items():
            if nm not in mem: continue
            ob, sb = mem[nm]
            if sb > 8:
                continue
            # a plain bool occupies a whole byte (size 8): its value is in bit 0
            lo = ob - 8 * byte_off
            if 0 <= lo < 8 * nbytes:
                bits[lo] = val; hit = True
        return bits if hit else None

    def dep_globals(self):
        return [g for g in self.globals.values() if g['ty'] == '%' + DEP_STRUCT and not g.get('constant')]      # (a const table of defaults is data, not the library's table)

    def fn(self, name):
        """the unique defined function with this source name (llvm-link may append .NNN to per-unit static copies:
        then all copies must exist, and the first is returned; use fns() to get them all)"""
        fs = self.fns(name)
        if not fs:
            raise AnalysisBroken('anchor function %s not found in the linked module' % name)
        return fs[0]

    def fns(self, name):
        out = [f for n, f in sorted(self.defined.items()) if base_name(n) == name]
        if not out:
            # an internal helper that gained or lost the library prefix when it was moved between files (static <-> POLYSEED_PRIVATE)
            strip = lambda x: x[len('polyseed_'):] if x.startswith('polyseed_') else x
            out = [f for n, f in sorted(self.defined.items()) if strip(base_name(n)) == strip(name) and base_name(n) not in PUBLIC_API]     # (never a public function standing in for an internal helper)
        return out

    def by_type(self, f, **vals):
        """argument list for an internal function whose parameter order may have changed: values are matched to parameters by LLVM type.
        keys: seed (struct polyseed_data*), poly (struct gf_poly* or a pointer to its coefficients), storage / bytes (i8*), lang (struct polyseed_lang*);
        integer parameters take the constant every call site passes (else 0)"""
        from .e7 import role_const
        from .bitflow import BV
        want = {'seed': ['%' + DATA_STRUCT + '*'], 'poly': ['%struct.gf_poly*', 'i16*', 'i64*', 'i32*'], 'storage': ['i8*'], 'bytes': ['i8*'], 'lang': ['%' + LANG_STRUCT + '*']}
        used = set(); out = []
        for n, p in enumerate(f.params):
            pick = None
            for k, v in vals.items():
                if k in used: continue
                if p['ty'] in want.get(k, []): pick = k; break
            if pick is not None:
                used.add(pick); out.append(vals[pick])
            elif not p['ty'].endswith('*'):
                c = role_const(self, f, n)
                out.append(BV.const(c if c is not None else 0, p['bits'] or 32))
            else:
                raise AnalysisBroken('parameter %d (%s) of %s has no counterpart in the harness' % (n, p['ty'], f.name))
        if len(used) != len(vals):
            raise AnalysisBroken('harness values %s not accepted by %s%s' % (sorted(set(vals) - used), f.name, [p['ty'] for p in f.params]))
        return out

    # ---- call resolution
    def dep_wrappers(self):
        """functions that do nothing but forward their parameters, in order, to one dependency-table entry and return its result
        (e.g. static inline deps_memzero(p, n) { polyseed_deps.memzero(p, n); }): name -> field. Calls to them are treated as dep:<field> calls."""
        if getattr(self, '_depw', None) is None:
            self._depw = {}
            for f in self.defined.values():
                if len(f.blocks) != 1: continue
                calls = [i for i in f.blocks[0] if i.op == 'call' and not self.is_dbg(i)]
                if len(calls) != 1: continue
                c = calls[0]
                t = self._raw_target(c)
                if not t or t[0] != 'dep': continue
                if len(c.ops) != len(f.params): continue
                ok = True
                for k, a in enumerate(c.ops):
                    v = a
                    while v['k'] == 'i' and f.insts[v['id']].op == 'bitcast': v = f.insts[v['id']].ops[0]
                    if v != {'k': 'a', 'n': k}: ok = False
                for i in f.blocks[0]:
                    if i.op in ('store', 'alloca'): ok = False
                    if i.op == 'ret' and i.ops:
                        v = i.ops[0]
                        while v['k'] == 'i' and f.insts[v['id']].op == 'bitcast': v = f.insts[v['id']].ops[0]
                        if v != {'k': 'i', 'id': c.id}: ok = False
                if ok: self._depw[f.name] = t[1]
        return self._depw

    def call_target(self, inst):
        """('direct', name) | ('dep', field) | ('indirect', valref) | ('asm', None); calls to pure dependency wrappers resolve to ('dep', field)"""
        t = self._raw_target(inst)
        if t and t[0] == 'direct' and t[1] in self.dep_wrappers():
            return ('dep', self.dep_wrappers()[t[1]])
        return t

    def _raw_target(self, inst):
        if inst.op not in ('call', 'invoke'):
            return None
        if 'callee' in inst.d:
            return ('direct', inst.d['callee'])
        if inst.d.get('callee_asm'):
            return ('asm', None)
        cv = inst.d['callee_val']
        if cv['k'] == 'i':
            src = inst.fn.insts.get(cv['id'])
            while src is not None and src.op == 'bitcast' and src.ops[0]['k'] == 'i':
                src = inst.fn.insts.get(src.ops[0]['id'])
            if src is not None and src.op == 'load' and src.ops[0]['k'] == 'g':
                g = self.globals.get(src.ops[0]['name'])
                if g is not None and g['ty'] == '%' + DEP_STRUCT:
                    fld = self.dep_fields.get(src.ops[0]['off'])
                    if fld:
                        return ('dep', fld[0])
        return ('indirect', cv)

    # ---- roles: internal helpers are found by what they do, not by what they are called or how their parameters are ordered
    def roles(self, kind):
        """kind 'lazy': functions that hand two of their own parameters to dep:u8_nfkd as (source, output): [Role(fn, {'src': i, 'out': j})]
        kind 'tokeniser': functions called, after a lazy-normaliser call, with the buffer that call filled and a local array of pointers:
        [Role(fn, {'buf': i, 'words': j})]; Role.consts maps further parameter indices to the constant every call site passes"""
        if not hasattr(self, '_roles'): self._roles = {}
        if kind in self._roles: return self._roles[kind]
        out = []
        def param_of(f, v):
            v, off = strip_casts(f, v)
            return v['n'] if v['k'] == 'a' and off == 0 else None
        def alloca_of(f, v):
            v, off = strip_casts(f, v)
            if v['k'] == 'i' and f.insts[v['id']].op == 'alloca' and off == 0: return f.insts[v['id']]
            return None
        def root_param(f, v, depth=0, seen=None):
            # the parameter a pointer is derived from (through GEPs with any offset, casts and phis), or None
            seen = seen if seen is not None else set()
            while depth < 24:
                if v['k'] == 'a': return v['n']
                if v['k'] != 'i' or v['id'] in seen: return None
                seen.add(v['id'])
                i = f.insts[v['id']]
                if i.op in ('getelementptr', 'bitcast'): v = i.ops[0]
                elif i.op == 'phi':
                    rs = {root_param(f, x, depth + 1, seen) for x, _ in i.d['incoming']} - {None}
                    return rs.pop() if len(rs) == 1 else None
                elif i.op == 'load':
                    v = local_forward(f, i)        # (a parameter parked in a local context struct)
                    if v is None: return None
                else: return None
                depth += 1
            return None
        if kind == 'lazy':
            for f in self.defined.values():
                for i, t in self.calls(f):
                    if t == ('dep', 'u8_nfkd') and len(i.ops) >= 2:
                        a0, a1 = root_param(f, i.ops[0]), root_param(f, i.ops[1])
                        if a0 is not None and a1 is not None and a0 != a1 and not any(r.fn is f for r in out):
                            out.append(Role(f, {'src': a0, 'out': a1}))
        elif kind == 'tokeniser':
            lazy = {r.fn.name: r for r in self.roles('lazy')}
            seen = {}
            for f in self.defined.values():
                calls = list(self.calls(f))
                for c1, t1 in calls:
                    if t1[0] != 'direct' or t1[1] not in lazy: continue
                    r1 = lazy[t1[1]]
                    if r1.args['out'] >= len(c1.ops): continue
                    def objs_of(f, v):
                        # the local buffer(s) a pointer is the base address of: the alloca itself, or - for a pointer parked in a context struct that a caller filled - the
                        # allocas points-to gives for a value that can only be an object base
                        al = alloca_of(f, v)
                        if al is not None: return frozenset([('alloca', f.name, al.id)])
                        r_, o_ = strip_casts(f, v)
                        if o_ != 0 or r_['k'] != 'i' or f.insts[r_['id']].op != 'load': return None
                        pt_ = self.points_to()
                        if not pt_.is_base(f, r_): return None
                        os_ = frozenset(pt_.of(f, r_))
                        return os_ if os_ and all(o[0] == 'alloca' for o in os_) else None
                    def is_word_array(o):
                        a_ = self.defined[o[1]].insts[o[2]]
                        return a_.d.get('alloc_kind') == 'array' and '*]' in (a_.d.get('alloc_ty') or '')
                    B = objs_of(f, c1.ops[r1.args['out']])
                    if B is None: continue
                    for c2, t2 in calls:
                        if c2 is c1 or t2[0] != 'direct' or t2[1] not in self.defined or t2[1] in lazy: continue
                        if not f.inst_dominates(c1, c2): continue
                        g = self.defined[t2[1]]
                        bi = wi = None
                        for n, a in enumerate(c2.ops[:len(g.params)]):
                            al = objs_of(f, a) if a['k'] in ('i', 'a') else None
                            if al is None: continue
                            if al == B: bi = n
                            elif all(is_word_array(o) for o in al): wi = n
                        if bi is not None and wi is not None:
                            W = objs_of(f, c2.ops[wi])
                            others = [c3 for c3, t3 in calls if c3 is not c2 and c3 is not c1 and t3[0] in ('direct', 'indirect') and not (t3[0] == 'direct' and t3[1].startswith('llvm.'))
                                      and any(objs_of(f, a_) in (B, W) for a_ in c3.ops if a_['k'] in ('i', 'a'))]
                            if not all(f.inst_dominates(c2, c3) for c3 in others): continue      # (a clean-up helper that also takes both is not the tokeniser)
                            r = seen.get(g.name)
                            if r is None:
                                r = seen[g.name] = Role(g, {'buf': bi, 'words': wi}); out.append(r)
                            for n, a in enumerate(c2.ops[:len(g.params)]):
                                if n in (bi, wi): continue
                                c = const_of(a)
                                r.consts[n] = c if (n not in r.consts or r.consts[n] == c) else None
        else:
            raise AnalysisBroken('unknown role %s' % kind)
        self._roles[kind] = out
        return out

    def leaves(self, f, v, depth=0):
        """values an operand can stand for: itself, or - if it is a parameter of f (possibly behind casts / constant GEPs) - the actual arguments at every direct call
        site of f, recursively: [(function, valref, constant offset accumulated on the way)]"""
        base, off = strip_casts(f, v)
        if base['k'] == 'a' and depth < 4 and off is not None:
            out = []
            for g in self.defined.values():
                for ci, ct in self.calls(g):
                    if ct == ('direct', f.name) and base['n'] < len(ci.ops):
                        for (g2, v2, o2) in self.leaves(g, ci.ops[base['n']], depth + 1): out.append((g2, v2, None if o2 is None else o2 + off))
            if out: return out
        return [(f, base, off)]

    def sym(self, f, v, bind=None, depth=0):
        """small symbolic evaluator for address / size expressions across helper boundaries: ('int', c) | ('ptr', root, byte offset) | None (unknown), where root is
        ('alloca', fn, id) | ('global', name) | ('val', fn, key) (an opaque pointer value such as a public parameter). Parameters are bound by `bind` (callee evaluation) or
        resolved at every direct call site (all sites must agree); loads from a member of a local read the one value stored there in the owning function; calls to internal
        functions evaluate the callee's return expression."""
        if depth > 24: return None
        k = v['k']
        if k == 'c': return ('int', v['v'])
        if k == 'null': return ('int', 0)
        if k == 'g': return ('ptr', ('global', v['name']), v.get('off', 0))
        if k == 'a':
            if bind is not None:
                return bind[v['n']] if v['n'] < len(bind) else None
            vals = []
            for g in self.defined.values():
                for ci, ct in self.calls(g):
                    if ct == ('direct', f.name) and v['n'] < len(ci.ops):
                        vals.append(self.sym(g, ci.ops[v['n']], None, depth + 1))
            if not vals: return ('ptr', ('val', f.name, ('a', v['n'])), 0) if f.params[v['n']]['ty'].endswith('*') else None
            if any(x is None for x in vals) or any(x != vals[0] for x in vals):
                # different call sites pass different things: opaque, but the same opaque thing for every use inside f
                return ('ptr', ('val', f.name, ('a', v['n'])), 0) if f.params[v['n']]['ty'].endswith('*') else None
            return vals[0]
        if k != 'i': return None
        i = f.insts.get(v['id'])
        if i is None: return None
        op = i.op
        S = lambda x: self.sym(f, x, bind, depth + 1)
        if op == 'alloca': return ('ptr', ('alloca', f.name, i.id), 0)
        if op in ('bitcast', 'ptrtoint', 'inttoptr', 'zext', 'sext', 'trunc', 'addrspacecast'):
            a = S(i.ops[0])
            if a and a[0] == 'int' and op == 'trunc': return ('int', a[1] & ((1 << i.d['bits']) - 1))
            return a
        if op == 'getelementptr':
            a = S(i.ops[0])
            if not a or a[0] != 'ptr': return None
            off = a[2] + i.d['const_off']
            for st_ in i.d['var_steps']:
                x = S(st_['idx'])
                if not x or x[0] != 'int': return None
                xv = x[1] - (1 << 64) if x[1] >> 63 else x[1]
                off += xv * st_['stride']
            return ('ptr', a[1], off)
        if op in ('add', 'sub', 'mul', 'sdiv', 'udiv', 'ashr', 'lshr', 'shl', 'and'):
            a, b = S(i.ops[0]), S(i.ops[1])
            if not a or not b: return None
            if op == 'sub' and a[0] == 'ptr' and b[0] == 'ptr':
                return ('int', (a[2] - b[2]) & ((1 << 64) - 1)) if a[1] == b[1] else None
            if a[0] == 'ptr' and b[0] == 'int' and op in ('add', 'sub'):
                bv = b[1] - (1 << 64) if b[1] >> 63 else b[1]
                return ('ptr', a[1], a[2] + (bv if op == 'add' else -bv))
            if a[0] != 'int' or b[0] != 'int': return None
            w = i.d.get('bits') or 64; M = (1 << w) - 1
            sv = lambda x: x - (1 << w) if (x >> (w - 1)) & 1 else x
            x, y = a[1] & M, b[1] & M
            try:
                r = {'add': x + y, 'sub': x - y, 'mul': x * y, 'udiv': x // y if y else None, 'sdiv': int(sv(x) / sv(y)) if y else None, 'ashr': sv(x) >> (y & 63), 'lshr': x >> (y & 63),
                     'shl': x << (y & 63), 'and': x & y}[op]
            except Exception: return None
            return None if r is None else ('int', r & M)
        if op == 'phi':
            vals = [S(x) for x, _ in i.d['incoming']]
            return vals[0] if vals and all(x is not None and x == vals[0] for x in vals) else None
        if op == 'load':
            a = S(i.ops[0])
            if not a or a[0] != 'ptr': return None
            if a[1][0] == 'alloca':
                F = self.defined[a[1][1]]
                stored = []
                for j in F.all_insts():
                    if j.op == 'store':
                        t = self.sym(F, j.ops[1], None, depth + 1)
                        if t and t[0] == 'ptr' and t[1] == a[1]:
                            if t[2] == a[2] and (j.d.get('size') or 8) == (i.d.get('size') or 8): stored.append(j.ops[0])
                        elif t is None:
                            r_, _ = strip_casts(F, j.ops[1])
                            if r_ == {'k': 'i', 'id': a[1][2]}: return None        # a store into the local at an offset the evaluator cannot determine
                stored = [x for x in stored if x['k'] not in ('undef',)]
                if len(stored) != 1: return None
                return self.sym(F, stored[0], None if F is not f else bind, depth + 1)
            return ('ptr', ('val', f.name, ('load', a[1], a[2])), 0) if (i.d.get('ty') or '').endswith('*') else None
        if op == 'call' and not self.is_dbg(i):
            t = self.call_target(i)
            if t[0] == 'direct' and t[1] in self.defined:
                g = self.defined[t[1]]
                b2 = [S(x) for x in i.ops[:len(g.params)]]
                rets = [j for j in g.all_insts() if j.op == 'ret' and j.ops]
                vals = [self.sym(g, j.ops[0], b2, depth + 1) for j in rets]
                return vals[0] if vals and all(x is not None and x == vals[0] for x in vals) else None
            return None
        return None

    def written_offsets(self, fname, k):
        """byte ranges of the object behind pointer parameter k that function fname may store to - itself or by handing the pointer on: set of (offset, size), or {'*'} when
        unknown (stores through pointers LOADED from the pointee do not count: they change what a context struct points to, not the struct)"""
        if getattr(self, '_wt', None) is None:
            if getattr(self, '_wt_building', False): return {'*'}        # (asked while being computed: conservative)
            self._wt_building = True
            wt = collections.defaultdict(set); changed = True
            def root_param(f, v, seen=None):
                # (parameter index, constant offset or None) the address is derived from; phis / selects of a parameter: offset unknown
                seen = seen if seen is not None else set()
                r, o = strip_casts(f, v)
                if r['k'] == 'a': return r['n'], o
                if r['k'] == 'i' and f.insts[r['id']].op in ('phi', 'select') and r['id'] not in seen:
                    seen.add(r['id'])
                    i = f.insts[r['id']]
                    for x in ([x for x, _ in i.d['incoming']] if i.op == 'phi' else i.ops[1:]):
                        q = root_param(f, x, seen)
                        if q is not None: return q[0], None
                return None
            def add(key, item):
                if item not in wt[key] and '*' not in wt[key]:
                    if item == '*': wt[key] = {'*'}
                    else: wt[key].add(item)
                    return True
                return False
            while changed:
                changed = False
                for f in self.defined.values():
                    for i in f.all_insts():
                        if i.op in ('store', 'cmpxchg', 'atomicrmw'):
                            q = root_param(f, i.ops[1] if i.op == 'store' else i.ops[0])
                            if q is not None and add((f.name, q[0]), '*' if q[1] is None else (q[1], i.d.get('size') or 8)): changed = True
                        elif i.op == 'call' and not self.is_dbg(i):
                            t = self.call_target(i)
                            for kk, a in enumerate(i.ops):
                                if a['k'] not in ('i', 'a'): continue
                                q = root_param(f, a)
                                if q is None: continue
                                if t[0] == 'direct' and t[1] in self.defined:
                                    for item in list(wt.get((t[1], kk), ())):
                                        it2 = '*' if (item == '*' or q[1] is None) else (item[0] + q[1], item[1])
                                        if add((f.name, q[0]), it2): changed = True
                                elif t[0] == 'direct' and (t[1].startswith('llvm.memcpy') or t[1].startswith('llvm.memmove') or t[1].startswith('llvm.memset')):
                                    if kk == 0:
                                        n_ = const_of(i.ops[2])
                                        if add((f.name, q[0]), '*' if (q[1] is None or n_ is None) else (q[1], n_)): changed = True
                                elif t[0] == 'direct' and t[1].startswith('llvm.'): pass
                                else:
                                    if add((f.name, q[0]), '*'): changed = True
            self._wt = wt; self._wt_building = False
            for f in self.defined.values(): f.__dict__.pop('_fwd', None)       # (answers given conservatively while building are recomputed)
        return self._wt.get((fname, k), set())

    def writes_through(self, fname, k, off=None, size=None):
        """may fname store into [off, off+size) of the object behind its pointer parameter k (any byte when off is None)?"""
        w = self.written_offsets(fname, k)
        if not w: return False
        if '*' in w or off is None: return True
        return any(o < off + size and off < o + sz for (o, sz) in w)

    def role_fn(self, name, kind):
        """the Role of function `name` for this kind, or None"""
        for r in self.roles(kind):
            if r.fn.name == name: return r
        return None

    def is_dbg(self, inst):
        return inst.op == 'call' and inst.d.get('callee', '').startswith('llvm.dbg.')

    def calls(self, fn):
        if fn.name in self.dep_wrappers():
            return            # the wrapper's single dependency call is attributed to the wrapper's call sites
        for i in fn.all_insts():
            if i.op == 'call' and not self.is_dbg(i):
                yield i, self.call_target(i)

    # ---- points-to
    def points_to(self):
        if self._pts is None:
            self._pts = PointsTo(self)
        return self._pts

    def callgraph(self):
        """direct + resolved indirect edges (function name -> set of callee names / 'dep:x')"""
        pts = self.points_to()
        cg = collections.defaultdict(set)
        for f in self.defined.values():
            for i, t in self.calls(f):
                if t[0] == 'direct':
                    cg[f.name].add(t[1])
                    if t[1] == 'bsearch':
                        for o in pts.of(f, i.ops[4]):
                            if o[0] == 'func':
                                cg[f.name].add(o[1])
                elif t[0] == 'dep':
                    cg[f.name].add('dep:' + t[1])
                    # library-defined defaults stored in the dependency table (the NULL-clock default, ...) run in the caller's context
                    for g in self.dep_globals():
                        for o in pts.content(('global', g['name'])):
                            if o[0] == 'func' and o[1] in self.defined: cg[f.name].add(o[1])
                elif t[0] == 'indirect':
                    for o in pts.of(f, t[1]):
                        if o[0] == 'func':
                            cg[f.name].add(o[1])
        return cg

    def reachable_from(self, roots):
        cg = self.callgraph()
        seen = set(); st = list(roots)
        while st:
            x = st.pop()
            if x in seen: continue
            seen.add(x)
            st.extend(cg.get(x, ()))
        return seen


PUBLIC_API = ('polyseed_inject', 'polyseed_enable_features', 'polyseed_get_num_langs', 'polyseed_get_lang', 'polyseed_get_lang_name', 'polyseed_get_lang_name_en',
              'polyseed_create', 'polyseed_free', 'polyseed_get_birthday', 'polyseed_get_feature', 'polyseed_encode', 'polyseed_decode', 'polyseed_decode_explicit',
              'polyseed_keygen', 'polyseed_store', 'polyseed_load', 'polyseed_crypt', 'polyseed_is_encrypted')


class Role:
    def __init__(self, fn, args):
        self.fn = fn; self.args = args; self.consts = {}

    def __repr__(self):
        return 'Role(%s, %r, %r)' % (self.fn.name, self.args, self.consts)


def is_ptr_ty(t):
    return t.endswith('*')


class PointsTo:
    """Andersen-style, flow- and context-insensitive. Object contents are keyed by byte offset when the accessing address is syntactically
    `object + constant` (an alloca, a by-value parameter copy, a global); every other access uses the key '*', which aliases all offsets."""

    def __init__(self, prog):
        self.prog = prog
        self.pts = collections.defaultdict(set)     # node -> set(obj)
        self.copy = collections.defaultdict(set)    # node -> set(node)  (pts[dst] >= pts[src]) keyed by src
        self.loads = []     # (dst node, addr node)
        self.stores = []    # (addr node, src node)
        self.memcpys = []   # (dst node, src node)
        self.icalls = []    # (fn, inst, callee node)
        self.bsearch = []   # (fn, inst)
        self.depcalls = []  # (fn, inst): calls through the dependency table (library-defined defaults are bound like indirect callees)
        self.keys = collections.defaultdict(set)    # object -> content keys in use
        self.interior = None      # pass 2: nodes that may hold a pointer into the middle of an object (None during pass 1: every non-syntactic root is treated as such)
        self._build()
        self._solve()
        # pass 2: with the (over-approximate) solution of pass 1, find the pointer values that can only be object bases; an access `value + constant` through such a value
        # touches exactly that byte offset of its object, so contents reached through helper parameters and loaded pointers (context structs) stay field-keyed
        inter = self._interior()
        self.pts = collections.defaultdict(set); self.copy = collections.defaultdict(set)
        self.loads = []; self.stores = []; self.memcpys = []; self.icalls = []; self.bsearch = []; self.depcalls = []
        self.keys = collections.defaultdict(set)
        self.interior = inter
        self._build()
        self._solve()

    def _interior(self):
        """nodes / object contents that may hold an interior pointer (fixpoint over the pass-1 solution)"""
        P = self.prog
        flag = set(n for n in self.copy if n[0] == 'addri')          # nodes
        cflag = set()         # objects one of whose cells may hold an interior pointer
        for f in P.defined.values():
            for i in f.all_insts():
                if i.op == 'getelementptr' and (i.d['var_steps'] or i.d['const_off'] != 0): flag.add(('v', f.name, i.id))
                elif i.op in ('inttoptr',): flag.add(('v', f.name, i.id))
                elif i.op == 'call' and not P.is_dbg(i):
                    t = P.call_target(i)
                    if t[0] == 'direct' and t[1] == 'bsearch': flag.add(('v', f.name, i.id))
                    if t[0] == 'direct' and t[1] not in P.defined and (i.d.get('ty') or '').endswith('*') and not (t[1].startswith('llvm.memcpy') or t[1].startswith('llvm.memmove') or t[1] in ('memcpy', 'memmove', 'malloc', 'calloc')):
                        flag.add(('v', f.name, i.id))
        for g in P.globals.values():
            def has_off(tree):
                k = tree['k']
                if k == 'gref': return bool(tree.get('off'))
                if k == 'struct': return any(has_off(x['v']) for x in tree['fields'])
                if k == 'array': return any(has_off(e) for e in tree['elems'])
                return k not in ('fref', 'int', 'zero', 'str', 'bytes', 'null', 'undef')
            if 'init' in g and has_off(g['init']): cflag.add(('global', g['name']))
        # 'ext' objects hold unknown caller data
        for o in list(self.keys):
            if o[0] in ('ext', 'extdeep'): cflag.add(o)
        changed = True
        while changed:
            changed = False
            wl = [n for n in flag if n in self.copy]
            while wl:
                s_ = wl.pop()
                for d in self.copy[s_]:
                    if d not in flag:
                        flag.add(d); changed = True
                        if d in self.copy: wl.append(d)
            for dst, a, key in self.loads:
                if dst not in flag and any(o in cflag for o in self.pts.get(a, ())):
                    flag.add(dst); changed = True
            for a, s_, key in self.stores:
                if s_ in flag or s_[0] == 'addri':
                    for o in self.pts.get(a, ()):
                        if o not in cflag: cflag.add(o); changed = True
            for d, s_, dk, sk in self.memcpys:
                if any(o in cflag for o in self.pts.get(s_, ())):
                    for o in self.pts.get(d, ()):
                        if o not in cflag: cflag.add(o); changed = True
        return flag

    def is_base(self, fn, v):
        """the pointer value can only be the base address of the objects it may point to"""
        n = self.node(fn, v)
        if n is None: return False
        if n[0] == 'addr': return True
        if n[0] in ('ce', 'addri'): return False
        return self.interior is not None and n not in self.interior

    def node(self, fn, v):
        k = v['k']
        if k == 'i': return ('v', fn.name, v['id'])
        if k == 'a': return ('p', fn.name, v['n'])
        if k == 'g':
            n = ('addri' if v.get('off') else 'addr', ('global', v['name']))      # ('addri': the address of something inside the global)
            self.pts[n].add(n[1])
            return n
        if k == 'f': return ('addr', ('func', v['name']))
        if k == 'ce':
            # constant expression: union of operand nodes via a fresh node
            n = ('ce', fn.name, id(v))
            for o in v['ops']:
                s = self.node(fn, o)
                if s: self.copy[s].add(n)
            return n
        return None

    def _addrs(self):
        for (tag, *rest) in list(self.copy.keys()):
            pass

    def _build(self):
        P = self.prog
        # global initialisers
        def walk(tree, obj):
            k = tree['k']
            if k in ('gref',):
                self._c(obj, '*').add(('global', tree['name']))
            elif k == 'fref':
                self._c(obj, '*').add(('func', tree['name']))
            elif k == 'struct':
                for f in tree['fields']: walk(f['v'], obj)
            elif k == 'array':
                for e in tree['elems']: walk(e, obj)
        for g in P.globals.values():
            if 'init' in g:
                walk(g['init'], ('global', g['name']))
        for f in P.defined.values():
            if not f.local:
                for n, p in enumerate(f.params):
                    if is_ptr_ty(p['ty']):
                        e = ('ext', f.name, n); e2 = ('extdeep', f.name, n)
                        self.pts[('p', f.name, n)].add(e)
                        self._c(e, '*').add(e2)
                        self._c(e2, '*').add(e2)
                        if p['ty'] == '%' + LANG_STRUCT + '*':
                            # API contract: language handles come from polyseed_get_lang, i.e. they are the library's own tables
                            for g in P.globals.values():
                                if g['ty'] == '%' + LANG_STRUCT and not g.get('decl'):
                                    self.pts[('p', f.name, n)].add(('global', g['name']))
            for i in f.all_insts():
                dst = ('v', f.name, i.id)
                if i.op == 'alloca':
                    self.pts[dst].add(('alloca', f.name, i.id))
                elif i.op in ('getelementptr', 'bitcast', 'inttoptr', 'ptrtoint', 'addrspacecast'):
                    s = self.node(f, i.ops[0])
                    if s: self.copy[s].add(dst)
                elif i.op == 'phi':
                    for v, _ in i.d['incoming']:
                        s = self.node(f, v)
                        if s: self.copy[s].add(dst)
                elif i.op == 'select':
                    for v in i.ops[1:]:
                        s = self.node(f, v)
                        if s: self.copy[s].add(dst)
                elif i.op in ('extractvalue', 'insertvalue'):
                    # aggregates passed/returned by value: field-insensitive - the aggregate may hold whatever any of its parts holds
                    for v in i.ops:
                        s = self.node(f, v)
                        if s: self.copy[s].add(dst)
                elif i.op == 'load':
                    a = self.node(f, i.ops[0])
                    if a and (is_ptr_ty(i.d['ty']) or i.d['bits'] == 64):
                        self.loads.append((dst, a, self._fkey(f, i.ops[0])))
                elif i.op == 'store':
                    a = self.node(f, i.ops[1]); s = self.node(f, i.ops[0])
                    if a and s: self.stores.append((a, s, self._fkey(f, i.ops[1])))
                elif i.op == 'ret':
                    if i.ops:
                        s = self.node(f, i.ops[0])
                        if s: self.copy[s].add(('ret', f.name))
                elif i.op == 'call' and not P.is_dbg(i):
                    t = P.call_target(i)
                    if t[0] == 'direct':
                        cal = t[1]
                        if cal in P.defined:
                            self._bind(f, i, cal)
                        elif cal.startswith('llvm.memcpy') or cal.startswith('llvm.memmove') or cal in ('memcpy', 'memmove'):
                            d = self.node(f, i.ops[0]); s = self.node(f, i.ops[1])
                            if d and s: self.memcpys.append((d, s, self._fkey(f, i.ops[0]), self._fkey(f, i.ops[1])))
                            if d: self.copy[d].add(dst)
                        elif cal == 'bsearch':
                            self.bsearch.append((f, i))
                            s = self.node(f, i.ops[1])
                            if s: self.copy[s].add(dst)
                        elif cal in ('malloc', 'calloc', 'realloc'):
                            self.pts[dst].add(('heap', f.name, i.id))
                    elif t[0] == 'dep':
                        self.depcalls.append((f, i))
                        if t[1] == 'alloc':
                            self.pts[dst].add(('heap', f.name, i.id))
                    elif t[0] == 'indirect':
                        c = self.node(f, t[1])
                        if c: self.icalls.append((f, i, c))
        # address-of pseudo nodes
        for src in list(self.copy.keys()):
            if src[0] in ('addr', 'addri'):
                self.pts[src].add(src[1])

    def _bind(self, f, i, cal):
        g = self.prog.defined[cal]
        for n, a in enumerate(i.ops[:len(g.params)]):
            s = self.node(f, a)
            if g.params[n].get('byval'):
                # the callee receives a private copy of the caller's object
                obj = ('byval', cal, n)
                self.pts[('p', cal, n)].add(obj)
                if s: self.memcpys.append((('p', cal, n), s, 0, self._fkey(f, a)))
                continue
            if s: self.copy[s].add(('p', cal, n))
        self.copy[('ret', cal)].add(('v', f.name, i.id))

    def _solve(self):
        bound = set()
        changed = True
        def addall(dst, objs):
            before = len(self.pts[dst])
            self.pts[dst] |= objs
            return len(self.pts[dst]) != before
        while changed:
            changed = False
            for src in list(self.copy.keys()):
                if src[0] in ('addr', 'addri') and src[1] not in self.pts[src]:
                    self.pts[src].add(src[1]); changed = True
            # copy edges to fixpoint
            wl = list(self.copy.keys())
            while wl:
                s = wl.pop()
                ps = self.pts.get(s)
                if not ps: continue
                for d in self.copy[s]:
                    if addall(d, ps):
                        changed = True
                        if d in self.copy: wl.append(d)
            for dst, a, key in self.loads:
                for o in list(self.pts.get(a, ())):
                    if key == '*':
                        if addall(dst, self.content(o)): changed = True
                    else:
                        if addall(dst, self.pts.get(('content', o, key), set()) | self.pts.get(('content', o, '*'), set())): changed = True
            for a, s, key in self.stores:
                ps = {s[1]} if s[0] in ('addr', 'addri') else self.pts.get(s)      # (the address of a function / global stored directly)
                if not ps: continue
                for o in list(self.pts.get(a, ())):
                    self.keys[o].add(key)
                    if addall(('content', o, key), ps): changed = True
            for d, s, dkey, skey in self.memcpys:
                for od in list(self.pts.get(d, ())):
                    for os_ in list(self.pts.get(s, ())):
                        if dkey == 0 and skey == 0:
                            # whole-object copy from base to base: offsets are preserved
                            for k in list(self.keys.get(os_, ())):
                                self.keys[od].add(k)
                                if addall(('content', od, k), self.pts.get(('content', os_, k), set())): changed = True
                        else:
                            self.keys[od].add('*')
                            if addall(('content', od, '*'), self.content(os_)): changed = True
            for f, i, c in self.icalls:
                for o in list(self.pts.get(c, ())):
                    if o[0] == 'func' and o[1] in self.prog.defined and (f.name, i.id, o[1]) not in bound:
                        bound.add((f.name, i.id, o[1])); self._bind(f, i, o[1]); changed = True
            for f, i in self.depcalls:
                for g_ in self.prog.dep_globals():
                    for o in list(self.content(('global', g_['name']))):
                        if o[0] == 'func' and o[1] in self.prog.defined and (f.name, i.id, o[1]) not in bound and len(self.prog.defined[o[1]].params) <= len(i.ops):
                            bound.add((f.name, i.id, o[1])); self._bind(f, i, o[1]); changed = True
            for f, i in self.bsearch:
                c = self.node(f, i.ops[4])
                for o in list(self.pts.get(c, ())):
                    if o[0] == 'func' and o[1] in self.prog.defined and (f.name, i.id, o[1]) not in bound:
                        bound.add((f.name, i.id, o[1])); changed = True
                        k = self.node(f, i.ops[0]); b = self.node(f, i.ops[1])
                        if k: self.copy[k].add(('p', o[1], 0))
                        if b: self.copy[b].add(('p', o[1], 1))

    def of(self, fn, v):
        n = self.node(fn, v)
        if n is None: return set()
        if n[0] in ('addr', 'addri'): return {n[1]}
        if n[0] == 'ce':
            # resolve on demand
            out = set()
            for o in v['ops']: out |= self.of(fn, o)
            return out
        return self.pts.get(n, set())

    def content(self, obj):
        out = set()
        for k in self.keys.get(obj, ()): out |= self.pts.get(('content', obj, k), set())
        return out

    def _c(self, obj, key):
        self.keys[obj].add(key)
        return self.pts[('content', obj, key)]

    def _fkey(self, f, v):
        """byte offset of address v inside the object it points to, when v is syntactically `root + constant` with root an alloca, a by-value
        parameter copy or a global (the only cases in which the address has exactly one target and a known offset); '*' otherwise"""
        r, off = strip_casts(f, v)
        if off is None: return '*'
        if r['k'] == 'i':
            ri = f.insts.get(r['id'])
            if ri is not None and ri.op == 'alloca': return off
        elif r['k'] == 'a':
            if f.params[r['n']].get('byval'): return off
        elif r['k'] == 'g':
            return off + r.get('off', 0)
        if self.interior is not None and r['k'] in ('i', 'a'):
            n = self.node(f, r)
            if n is not None and n not in self.interior: return off
        return '*'


# ---------- small helpers used by several rules

def strip_casts(fn, v, _depth=0):
    """follow bitcasts / GEPs back to the underlying SSA value; returns (valref, const_offset or None). A pointer re-loaded from a member of a local (a context struct
    field that is assigned once) stands for the value stored there (see local_forward)"""
    off = 0
    while v['k'] == 'i':
        i = fn.insts.get(v['id'])
        if i is None: break
        if i.op == 'bitcast':
            v = i.ops[0]
        elif i.op == 'getelementptr':
            if i.d['var_steps']:
                off = None if off is None else None
                v = i.ops[0]
            else:
                off = None if off is None else off + i.d['const_off']
                v = i.ops[0]
        elif i.op == 'load' and _depth < 6:
            w = local_forward(fn, i, _depth)
            if w is None: break
            v = w
        else:
            break
    return v, off


def local_forward(fn, ld, _depth=0):
    """the one value ever stored in the member of a local that `ld` reads - flow-insensitive store-to-load forwarding, valid when the member (alloca + constant offset) has
    exactly one non-constant store in the function, nothing stores into the local at an unknown offset, and no callee that receives the local's address writes through it.
    Returns the stored valref, or None"""
    cache = fn.__dict__.setdefault('_fwd', {})
    if ld.id in cache: return cache[ld.id]
    cache[ld.id] = None       # (recursion guard)
    if not (ld.d.get('ty') or '').endswith('*'): return None
    r, o = strip_casts(fn, ld.ops[0], _depth + 1)
    if o is None or r['k'] != 'i': return None
    a = fn.insts.get(r['id'])
    if a is None or a.op != 'alloca': return None
    vals = []
    P = fn.prog
    for i in fn.all_insts():
        if i.op == 'store':
            r2, o2 = strip_casts(fn, i.ops[1], _depth + 1)
            if r2 != r: continue
            if o2 is None: return None
            sz = i.d.get('size') or 8
            if o2 == o and sz == (ld.d.get('size') or 8):
                if i.ops[0]['k'] in ('c', 'null', 'undef'): continue        # (zero initialisation before the real assignment)
                if i.ops[0] not in vals: vals.append(i.ops[0])
            elif o2 < o + (ld.d.get('size') or 8) and o < o2 + sz: return None       # overlapping store of another shape
        elif i.op == 'call' and not P.is_dbg(i):
            t = P.call_target(i)
            for k, x in enumerate(i.ops):
                if x['k'] not in ('i',): continue
                r2, o2 = strip_casts(fn, x, _depth + 1)
                if r2 != r: continue
                if t[0] == 'direct' and t[1].startswith('llvm.memset') and k == 0 and const_of(i.ops[1]) == 0: continue       # (= {0})
                if t[0] == 'direct' and (t[1].startswith('llvm.lifetime') or t[1].startswith('llvm.dbg')): continue
                if t[0] == 'direct' and t[1] in P.defined and o2 is not None and not P.writes_through(t[1], k, o - o2, ld.d.get('size') or 8): continue
                if t[0] == 'dep' and t[1] == 'memzero': continue        # (the wipe at the end of the object's life)
                return None
    if len(vals) != 1: return None
    cache[ld.id] = vals[0]
    return vals[0]


def const_of(v):
    if v['k'] == 'c': return v['v']
    if v['k'] == 'null': return 0
    return None
