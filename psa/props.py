"""Property registry: which rules decide which property, level, explanation, trusted base."""
import json, os
from .context import Ctx
from .report import Report
from . import rules_effects, rules_own, rules_wipe, rules_tables, rules_bits, rules_api, rules_char, rules_cmp, rules_birthday, rules_bounds

TB_COMMON = ['clang-14 parsing and -O0 lowering of C11 (+ opt-14 sroa)', 'LLVM x86-64 data layout',
             'tools/irfacts.cc (IR -> JSON, no analysis)', 'psa/ir.py CFG, dominators, inclusion-based points-to']


def _linit(ctx, rep):
    """L-INIT: canonical-seed invariant established by every constructor and preserved by crypt"""
    rules_api.create(ctx, rep)
    rules_api.decoders(ctx, rep)
    rules_api.load_api(ctx, rep)
    rules_bits.packing(ctx, rep, want=('inverse',))
    rules_bits.storage(ctx, rep)
    rules_api.crypt(ctx, rep)
    rules_birthday.birthday(ctx, rep)        # (the month index fits its 10 bits for every clock value)


def c01(ctx, rep):
    rules_effects.local_escape(ctx, rep)
    rules_effects.api_abi(ctx, rep)
    rules_tables.word_storage(ctx, rep)
    rules_effects.api_deps(ctx, rep)
    rules_effects.dep_aliasing(ctx, rep)
    rules_cmp.dispatch(ctx, rep)
    rules_cmp.nfkd_before_split(ctx, rep)
    rules_bounds.helper_contracts(ctx, rep)
    rules_bits.packing(ctx, rep, want=('layout', 'inverse'))
    rules_api.encode_api(ctx, rep)
    rules_api.decoders(ctx, rep)
    rules_tables.normalisation(ctx, rep)
    rules_tables.search_preconditions(ctx, rep)
    rules_tables.search_callsite(ctx, rep)
    rules_api.detection(ctx, rep)
    rules_api.create(ctx, rep)
    rules_api.load_api(ctx, rep)
    rules_bits.storage(ctx, rep)
    rules_api.crypt(ctx, rep)
    rep.assumptions += ['injected NFC/NFKD agree with Unicode normalisation (Python unicodedata is the oracle for the table constants)',
                        'the comparator bodies implement the reference matching rule (C08)']
    return ('conjunction of necessary conditions that is also the proof skeleton of the round trip: packing bijection and symmetric coin '
            '(bitflow), encoder emits words[c_w] in order / decoder unpacks the searched indices (exit summaries), normalisation closure and '
            'search preconditions of the tables')


def c02(ctx, rep):
    rules_bits.mul2_and_horner(ctx, rep)
    rules_cmp.counter_pairing(ctx, rep)
    rules_cmp.skip_normalised(ctx, rep)
    rules_cmp.dispatch(ctx, rep)
    rules_api.decoders(ctx, rep)
    rules_api.load_api(ctx, rep)
    rules_api.create(ctx, rep)
    rules_api.crypt(ctx, rep)
    rules_api.detection(ctx, rep)
    return ('bit-provenance abstract interpretation derives gf_elem_mul2 and gf_poly_eval as GF(2)-linear maps for all inputs at once; '
            'rank checks on the extracted matrices give single-error and transposition detection; exit summaries show the check is on every '
            'path that hands out a parsed seed and that create/crypt store a value that makes the form vanish')


def c03(ctx, rep):
    rules_effects.api_abi(ctx, rep)
    rules_effects.api_deps(ctx, rep)
    rules_effects.dep_aliasing(ctx, rep)
    rules_effects.state_reads(ctx, rep)
    rules_bounds.helper_contracts(ctx, rep)
    rules_bits.packing(ctx, rep, want=('layout',))
    rules_api.encode_api(ctx, rep)
    rules_bits.mul2_and_horner(ctx, rep)
    rules_tables.registry_and_frozen(ctx, rep)
    rules_api.inject(ctx, rep)
    rules_api.decoders(ctx, rep)
    return ('bit-provenance abstract interpretation of the packer and of polyseed_encode compared bit for bit with the published layout; '
            'check word = GF(2048) evaluation (C02 lemma); separators and composition flags from the constant tables')


def c04(ctx, rep):
    rules_effects.dep_aliasing(ctx, rep)
    rules_effects.api_abi(ctx, rep)
    rules_api.keygen(ctx, rep)
    _linit(ctx, rep)
    return ('bitflow exit summary of polyseed_keygen: every argument of the single KDF call as a symbolic term over the seed fields and coin; '
            'L-INIT shows the 13 padding bytes of the password are zero for every seed the library hands out')


def c05(ctx, rep):
    rules_effects.api_abi(ctx, rep)
    rules_bits.mul2_and_horner(ctx, rep)
    rules_bounds.helper_contracts(ctx, rep)
    rules_api.encode_api(ctx, rep)
    rules_api.decoders(ctx, rep)
    rules_api.detection(ctx, rep)
    return ('coin enters only coefficient 1, unmasked, on both sides (bitflow exit summaries of encode and of both decoders); L^1 is '
            'invertible (matrices extracted from the code), so a non-zero coin difference always changes the evaluation')


def c06(ctx, rep):
    rules_effects.who_may_call(ctx, rep, cfgs=['NsS'])
    rules_bounds.byte_buffer_alignment(ctx, rep)
    rules_bits.storage(ctx, rep)
    rules_bits.storage_total(ctx, rep)
    rules_api.load_api(ctx, rep)
    rules_api.create(ctx, rep)
    rules_api.decoders(ctx, rep)
    rules_api.crypt(ctx, rep)
    rules_birthday.birthday(ctx, rep)
    return ('bit-provenance abstract interpretation of the storage codec: symbolic image of store; trace-partitioned load whose accept '
            'partition is the inverse of store with every input bit carried or pinned by a guard; exit summaries of polyseed_load for precedence and cleanup')


def c09(ctx, rep):
    rules_effects.local_escape(ctx, rep)
    rules_bounds.input_immutability(ctx, rep, cfgs=['NsS'])
    rules_cmp.nfkd_before_split(ctx, rep)
    rules_cmp.lazy_normaliser_semantics(ctx, rep)
    rules_cmp.dispatch(ctx, rep)
    rules_api.decoders(ctx, rep)
    rules_api.detection(ctx, rep)
    rep.assumptions += ['NOT decided: token-boundary behaviour of str_split over all strings (empty tokens, 17th token, single trailing space): a loop '
                        'over an unbounded string with data-dependent exits; only its memory safety (C14) and that its result is compared with 16 are decided']
    return ('exit summaries of both decoders (status precedence, sibling agreement) and of the detection loop over all 2^10 per-language '
            'outcome assignments, with the per-language search summarised')


def c10(ctx, rep):
    rules_api.features(ctx, rep)
    rules_api.create(ctx, rep)
    rules_api.decoders(ctx, rep)
    rules_api.load_api(ctx, rep)
    rules_api.crypt(ctx, rep)
    rules_bits.packing(ctx, rep, want=('layout', 'inverse'))
    rules_bits.storage(ctx, rep)
    rules_bits.storage_total(ctx, rep)
    rules_effects.frame(ctx, rep, cfgs=['NsS'])
    rules_effects.state_reads(ctx, rep)
    rules_birthday.birthday(ctx, rep)
    return ('bitflow on the feature predicates and on polyseed_enable_features partitioned on the three mask bits; exit summaries of the four '
            'entry points; feature bits carried by packing, storage and crypt (bit identities)')


def c12(ctx, rep):
    rules_effects.dep_aliasing(ctx, rep)
    rules_api.crypt(ctx, rep)
    rules_bounds.helper_contracts(ctx, rep)
    rules_api.features(ctx, rep)
    rules_bits.storage_total(ctx, rep)
    return 'bitflow exit summary of polyseed_crypt with the KDF output as 256 symbols; the transformer composed with itself is the identity'


def c13(ctx, rep):
    rules_effects.api_abi(ctx, rep)
    rules_effects.state_reads(ctx, rep, cfgs=ctx.configs('path'))
    rules_effects.api_deps(ctx, rep, cfgs=ctx.configs('path'))
    rules_effects.dep_aliasing(ctx, rep)
    rules_bounds.helper_contracts(ctx, rep)
    _linit(ctx, rep)
    rules_api.inject(ctx, rep)
    rules_api.features(ctx, rep)
    rules_api.keygen(ctx, rep)
    rules_api.encode_api(ctx, rep)
    rules_api.decoders(ctx, rep)
    rules_api.detection(ctx, rep)
    rules_api.load_api(ctx, rep)
    rules_api.create(ctx, rep)
    rules_api.crypt(ctx, rep)
    rules_bits.storage_total(ctx, rep)
    rules_effects.frame(ctx, rep, cfgs=ctx.configs('path'))
    return ('inductive decomposition of the simulation: canonical-seed invariant established by every constructor and preserved by crypt '
            '(bitflow), per-operation effect summaries, frame condition (effect analysis)')


def c15(ctx, rep):
    rules_effects.local_escape(ctx, rep)
    rules_own.ownership(ctx, rep)
    rules_api.inject(ctx, rep)
    rules_effects.who_may_call(ctx, rep, cfgs=ctx.configs('path'))
    rules_api.create(ctx, rep)
    rules_api.decoders(ctx, rep)
    rules_api.load_api(ctx, rep)
    rules_bits.packing(ctx, rep, want=('inverse',))
    rules_bits.storage(ctx, rep)
    rep.assumptions += ['callers pass to polyseed_free only pointers obtained from the library (caller contract)',
                        'the injected allocator/free behave like malloc/free']
    return ('ownership typestate over every CFG path of every allocating function; release-function shape; who-may-allocate/release over '
            'the whole call graph; bitflow with the heap block UNINIT shows fresh memory is never assumed zero')


def c16(ctx, rep):
    rules_wipe.wipes(ctx, rep)
    rules_own.ownership(ctx, rep)
    rules_api.decoders(ctx, rep)
    rules_api.load_api(ctx, rep)
    rep.assumptions += ['residues in registers, spill slots and scalar locals are below the IR level analysed',
                        'dep:memzero is an opaque external call, hence not elidable by the optimiser']
    return ('secret-taint summaries over the call graph select the secret-bearing aggregate locals; must-pass-through '
            '(CFG reachability with wipe calls removed) from each tainting instruction to every return; exit summaries show released blocks are all-zero')


def c20(ctx, rep):
    rules_effects.visibility(ctx, rep)
    rules_effects.frame(ctx, rep)
    rules_effects.who_may_call(ctx, rep)
    rep.assumptions += ['setup (polyseed_inject / polyseed_enable_features) happens-before the concurrent phase',
                        'injected functions are themselves thread-safe']
    return ('effect analysis: a data race needs a write to a shared location; every write target is resolved by points-to '
            'and must be a local, a caller-owned object or a freshly allocated block unless the writer is setup-only')


def c18(ctx, rep):
    rules_effects.visibility(ctx, rep)
    rules_effects.api_deps(ctx, rep, cfgs=ctx.configs('path'))
    rules_effects.dep_aliasing(ctx, rep)
    rules_effects.who_may_call(ctx, rep)
    rules_effects.frame(ctx, rep, cfgs=ctx.configs('path'))
    rules_api.inject(ctx, rep)
    rules_api.create(ctx, rep)
    rules_bounds.helper_contracts(ctx, rep)
    return ('who-may-call allow-list over all configurations; dependency table written only by polyseed_inject; bitflow exit summaries of '
            'polyseed_inject (8 NULL patterns) and polyseed_create (CSPRNG output as symbols)')


def c07(ctx, rep):
    rules_tables.word_storage(ctx, rep)
    rules_bounds.helper_contracts(ctx, rep)
    rules_tables.registry_api(ctx, rep)
    rules_cmp.dispatch(ctx, rep)
    rules_cmp.counter_pairing(ctx, rep)
    rules_cmp.skip_normalised(ctx, rep)
    rules_tables.registry_and_frozen(ctx, rep)
    rules_tables.normalisation(ctx, rep)
    rules_tables.search_preconditions(ctx, rep)
    rules_tables.search_callsite(ctx, rep)
    rules_api.detection(ctx, rep)
    rep.assumptions += ['Python unicodedata (UCD 14/15) is the oracle for NFC/NFKD of the table constants',
                        'that the four C comparator bodies implement the reference matching rule for all strings is C08\'s subject']
    return ('exhaustive constant-table analysis over the IR initialisers of all 10 x 2048 words: registry, frozen content against '
            'ref/, distinctness, normalisation closure, sortedness and unambiguity under the reference matching rule; bsearch constants')


def c17(ctx, rep):
    rules_tables.word_storage(ctx, rep)
    rules_effects.api_deps(ctx, rep)
    rules_effects.dep_aliasing(ctx, rep)
    rules_tables.phrase_size(ctx, rep)
    rules_bounds.normaliser_buffers(ctx, rep)
    rules_bounds.helper_contracts(ctx, rep)
    rules_api.encode_api(ctx, rep)
    return ('per-position maxima of word lengths (NFKD and NFC) over all 2048 admissible indices, summed over 16 positions + 15 '
            'separators, compared with the compiled sizeof(polyseed_str); exit summary of encode ties the sum to the 16+15 writer calls')


def c08(ctx, rep):
    rules_effects.dep_aliasing(ctx, rep)
    rules_tables.word_storage(ctx, rep)
    rules_bounds.input_immutability(ctx, rep, cfgs=['NsS'])
    rules_cmp.dispatch(ctx, rep)
    rules_cmp.nfkd_before_split(ctx, rep)
    rules_cmp.skip_normalised(ctx, rep)
    rules_cmp.counter_pairing(ctx, rep)
    rules_cmp.cursor_safety(ctx, rep)
    rules_cmp.lazy_normaliser_semantics(ctx, rep)
    rules_tables.search_preconditions(ctx, rep)
    rules_tables.registry_and_frozen(ctx, rep)
    rep.assumptions += ['NOT decided: that each comparator body returns 0 exactly for "equal, or key is a >= 4-character prefix" on all strings '
                        '(unbounded string loops with data-dependent exits); only the structural necessary conditions named by the rules are decided']
    return ('structural rules on the comparators\' CFG/SSA: dispatch by language flags, NFKD before tokenising, skip-normalised reads '
            '(contradiction rule), prefix-counter pairing and threshold, cursor discipline; table preconditions of unambiguity')


def c11(ctx, rep):
    rules_effects.api_deps(ctx, rep)
    rules_effects.dep_aliasing(ctx, rep)
    rules_effects.frame(ctx, rep)       # (a birthday remembered in static storage between calls is not a function of this call's clock reading)
    rules_birthday.birthday(ctx, rep)
    rules_bounds.helper_contracts(ctx, rep)
    rules_api.create(ctx, rep)
    rules_bits.packing(ctx, rep, want=('layout', 'inverse'))
    rules_bits.storage(ctx, rep)
    rules_bits.storage_total(ctx, rep)
    rules_api.crypt(ctx, rep)
    return ('interval abstract interpretation of the two birthday functions over the 1024 month intervals and the out-of-range classes '
            '(covers all 2^64 clock values); the stamp comes from the injected clock (create summary); the 10 bits are carried unchanged by '
            'packing, storage and crypt (bit identities)')


def c14(ctx, rep):
    rules_effects.local_escape(ctx, rep)
    rules_effects.dep_aliasing(ctx, rep)
    rules_effects.api_abi(ctx, rep)
    rules_tables.word_storage(ctx, rep)
    rules_bounds.byte_buffer_alignment(ctx, rep, cfgs=ctx.configs('path') if ctx.tier == 'thorough' else None)
    rules_cmp.nfkd_before_split(ctx, rep)      # (includes TOK-1: no out-of-bounds access of the tokeniser on any buffer)
    rules_cmp.dispatch(ctx, rep)               # (includes CMP-8: no comparator reads past a terminator)
    rules_bounds.helper_contracts(ctx, rep)
    rules_bounds.normaliser_buffers(ctx, rep)
    rules_cmp.cursor_safety(ctx, rep)
    rules_bounds.input_immutability(ctx, rep)
    rules_bounds.no_abort(ctx, rep)
    rules_own.ownership(ctx, rep)
    # harness runs: their concrete, bounds-checked accesses feed the inventory rule IDX-2
    rules_bits.mul2_and_horner(ctx, rep)
    rules_bits.packing(ctx, rep, want=('layout', 'inverse'))
    rules_bits.storage(ctx, rep)
    rules_api.keygen(ctx, rep)
    rules_api.crypt(ctx, rep)
    rules_api.create(ctx, rep)
    rules_api.decoders(ctx, rep)
    rules_api.load_api(ctx, rep)
    rules_api.encode_api(ctx, rep)
    rules_api.detection(ctx, rep)
    rules_api.features(ctx, rep)
    rules_bounds.counters(ctx, rep)
    rules_tables.phrase_size(ctx, rep)
    rep.assumptions += ['input strings are NUL-terminated (caller contract); injected functions respect their documented buffer sizes',
                        'NOT decided: termination and absence of every undefined-behaviour class as such; only bounds of indexed and cursor accesses, '
                        'input immutability, documented status sets, ownership and no-abort are decided']
    return ('bounds of every indexed access (concrete in bitflow harnesses, monotone-counter rule elsewhere, inventory of all variable-index sites), '
            'NUL-cursor discipline (must-dataflow), input immutability (points-to effect rule over const parameters), whole-buffer rule for '
            'normaliser outputs, documented status sets from exit summaries, ownership typestate, no noreturn call in release builds')


def c19(ctx, rep):
    rules_char.char_sites(ctx, rep)
    rules_char.ir_signedness_diff(ctx, rep)
    rules_char.byte_order_tables(ctx, rep)
    return ('type-resolved AST rule: every promotion site of a plain-char value is classified by its consumer; relational comparisons '
            'between two plain chars are covered by the table condition (lists strictly increasing in both byte orders)')


REGISTRY = {
    'C05': dict(fn=c05, level='proof', tb=TB_COMMON + ['psa/bitflow.py', 'psa/harness.py summaries']),
    'C08': dict(fn=c08, level='other', tb=TB_COMMON + ['psa/rules_cmp.py idiom classifiers (non-ASCII test, NUL test, byte equality)']),
    'C09': dict(fn=c09, level='other', tb=TB_COMMON + ['psa/bitflow.py', 'psa/harness.py summaries']),
    'C10': dict(fn=c10, level='proof', tb=TB_COMMON + ['psa/bitflow.py']),
    'C11': dict(fn=c11, level='proof', tb=TB_COMMON + ['psa/interval.py interval transfer functions', 'published constants EPOCH / TIME_STEP in psa/rules_birthday.py', 'psa/bitflow.py']),
    'C12': dict(fn=c12, level='proof', tb=TB_COMMON + ['psa/bitflow.py', 'summaries of injected functions in psa/harness.py']),
    'C13': dict(fn=c13, level='other', tb=TB_COMMON + ['psa/bitflow.py']),
    'C14': dict(fn=c14, level='other', tb=TB_COMMON + ['psa/bitflow.py', 'psa/rules_bounds.py must-dataflow and counter invariants']),
    'C15': dict(fn=c15, level='proof', tb=TB_COMMON + ['psa/paths.py path walker (phi resolution, constant folding)']),
    'C16': dict(fn=c16, level='proof', tb=TB_COMMON + ['psa/taint.py propagation summaries for injected functions']),
    'C01': dict(fn=c01, level='other', tb=TB_COMMON + ['psa/bitflow.py transfer functions', 'Python unicodedata']),
    'C02': dict(fn=c02, level='proof', tb=TB_COMMON + ['psa/bitflow.py transfer functions and affine merge', 'reference polynomial x^11+x^2+1']),
    'C03': dict(fn=c03, level='proof', tb=TB_COMMON + ['psa/bitflow.py transfer functions', 'published layout transcribed in rules_bits.ref_layout']),
    'C04': dict(fn=c04, level='proof', tb=TB_COMMON + ['psa/bitflow.py', 'summaries of injected functions in psa/harness.py']),
    'C06': dict(fn=c06, level='proof', tb=TB_COMMON + ['psa/bitflow.py transfer functions, guard refinement by GF(2) elimination']),
    'C07': dict(fn=c07, level='other', tb=TB_COMMON + ['Python unicodedata', 'ref/languages.json + ref/words (transcribed from the pinned release)']),
    'C17': dict(fn=c17, level='proof', tb=TB_COMMON + ['Python unicodedata']),
    'C18': dict(fn=c18, level='other', tb=TB_COMMON),
    'C19': dict(fn=c19, level='proof', tb=['clang-14 parsing and type checking (AST JSON dump)', 'psa/rules_char.py consumer classification', 'IR constant extraction for the word lists']),
    'C20': dict(fn=c20, level='proof', tb=TB_COMMON),
}


def _selftest(pid, rep):
    """thorough tier: test the checker both ways on scratch copies of /repo's working tree (outside /repo and /verif, removed afterwards):
    every seeded change this property is recorded to detect must still be reported, every behaviour-preserving edit must stay silent"""
    import subprocess, tempfile, shutil
    from concurrent.futures import ThreadPoolExecutor
    from .frontend import VERIF, repo_root, AnalysisBroken
    jobs = []
    sd = os.path.join(VERIF, 'seeded')
    for d in sorted(os.listdir(sd)):
        mp = os.path.join(sd, d, 'meta.json')
        if not os.path.exists(mp): continue
        m_ = json.load(open(mp))
        if pid in (m_.get('detected_by') or []):
            jobs.append(('mutant', d, os.path.join(sd, d, 'patch.diff')))
        elif pid in (m_.get('detected_by_thorough_only') or []):
            jobs.append(('mutant-thorough', d, os.path.join(sd, d, 'patch.diff')))      # visible only in the configuration matrix (assertion-enabled / shared builds)
    ed = os.path.join(VERIF, 'selftest', 'equivalents')
    for f in sorted(os.listdir(ed)):
        if f.endswith('.diff'): jobs.append(('equivalent', f[:-5], os.path.join(ed, f)))
    root = repo_root()
    def one(job):
        kind, name, patch = job
        d = tempfile.mkdtemp(prefix='psa-self-')
        try:
            for sub in ('src', 'include', 'tests'):
                shutil.copytree(os.path.join(root, sub), os.path.join(d, sub))
            shutil.copy(os.path.join(root, 'CMakeLists.txt'), d)
            r = subprocess.run('patch -p1 --fuzz=3 -s < %s' % patch, shell=True, cwd=d, capture_output=True, text=True)
            if r.returncode != 0: return kind, name, None
            env = dict(os.environ, POLYSEED_TREE=d, PSA_EVIDENCE_DIR=os.path.join(d, '_ev'), PSA_NESTED='1')
            r = subprocess.run([os.path.join(VERIF, 'check'), pid, '--tier', 'thorough' if kind == 'mutant-thorough' else 'quick'], capture_output=True, text=True, env=env, cwd=VERIF)
            return kind.split('-')[0], name, r.returncode
        finally:
            shutil.rmtree(d, ignore_errors=True)
    fired = {}; silent = {}
    with ThreadPoolExecutor(max_workers=14) as ex:
        for kind, name, rc in ex.map(one, jobs):
            if kind == 'mutant': fired[name] = rc
            else: silent[name] = rc
    rep.info['selftest'] = {'mutants_fired': {k: (v == 1) if v is not None else 'patch does not apply to this tree' for k, v in fired.items()},
                            'equivalents_silent': {k: (v == 0) if v is not None else 'patch does not apply to this tree' for k, v in silent.items()}}
    missed = sorted(k for k, v in fired.items() if v is not None and v != 1)
    alarms = sorted(k for k, v in silent.items() if v == 1)
    if missed or alarms:
        raise AnalysisBroken('self-test of the checker failed: seeded changes no longer reported %s; behaviour-preserving edits reported %s' % (missed, alarms))


def run(pid, tier, seed, replay=None):
    ent = REGISTRY[pid]
    ctx = Ctx(tier)
    rep = Report(pid, tier, ent['level'], seed)
    if replay:
        want = json.load(open(replay))
        print('replaying %s: rule %s at %s (%s)' % (replay, want['rule'], want['where'], want['construct']))
    from .frontend import AnalysisBroken
    try:
        expl = ent['fn'](ctx, rep)
    except Exception as e:
        ua = None; x = e; seen = 0
        while x is not None and seen < 8:
            from .bitflow import UnsafeAccess
            if isinstance(x, UnsafeAccess): ua = x; break
            x = x.__cause__ or x.__context__; seen += 1
        if ua is not None and not rep.violations:
            rep.rule('MEM-1', 'no harness execution performs a memory-unsafe access: an out-of-bounds access to a library object or to an argument of a public function of its documented '
                     'size, an access through a pointer to a local whose function has returned, or a relational comparison of pointers to two different objects of the library, on a path described by exact constraints over the inputs (a feasible execution), is '
                     'undefined behaviour whatever the property under analysis says about values')
            rep.fail('every access of the analysed executions stays inside a live object', ua.where, str(ua)[:300], detail=ua.detail, key='MEM-1|%s' % ua.where)
        if not rep.violations:
            raise
        # a rule already produced a violation with a named construct; a later rule could not be evaluated on this tree
        rep.notes.append('ANALYSIS-BROKEN after the violation(s) were found: %s' % e)
        print('note: a later rule could not be evaluated (%s); reporting the violations found before it' % e)
        expl = 'partial run: see notes'
    from .frontend import source_digest
    dg, nfiles = source_digest()
    rep.info['source_sha256'] = dg; rep.info['source_files'] = nfiles
    rep.info['functions_analysed'] = {c: len(ctx._prog[c].defined) for c in ctx._prog}
    if tier == 'thorough' and not os.environ.get('PSA_NESTED') and not rep.violations and not replay:
        _selftest(pid, rep)
    rc = rep.finish(expl, ent['tb'], './check %s --tier %s' % (pid, tier))
    if replay:
        still = [v for v in rep.violations if v['key'] == want['key']]
        print('replay: the recorded violation %s' % ('is still present' if still else 'is no longer reported'))
        return 1 if still else 0
    return rc
