"""E7: finite string-automaton abstraction of the byte-string helpers (tokeniser, word comparators).

The helpers touch input bytes only through a finite set of tests: comparison with 0 / ' ', the non-ASCII mask test, and equality / ordering
between two loaded bytes. A byte is therefore abstracted to (class, identity) with class in
    Z = {0}   S = {0x20}   A = other ASCII 1..127   H = 0x80..0xFF
and two bytes of overlapping classes to an order relation (lt / eq / gt) that is chosen once per pair. Pointers into an input string are
positions on a lazily materialised tape: the first read of a cell partitions on its class. Integers are concrete up to a saturation bound taken from
the constants the function compares against. The abstract interpreter walks the IR (calls inlined) and merges abstract states at block entries: two
states agree when control point, live values, the relative layout of live positions, the classes of the cells still reachable from them, the
chosen relations and the state of the reference automaton agree. The set of abstract states is finite, so the walk is a fixpoint computation, and
every abstract state stands for all concrete strings with that class / relation pattern.

The reference automaton (``monitor``) consumes the same cells and says what the result has to be; a disagreement is reported with the class pattern
of a witness. Anything the abstraction cannot express (arithmetic on a byte, comparison with another constant, re-reading a cell that was dropped
from the abstract state) raises Imprecise: the rule then records "not decided" and never a violation.
"""
import copy
from .frontend import AnalysisBroken


class Imprecise(Exception):
    pass


class Found(Exception):
    """a disagreement with the reference automaton, or an unsafe access"""
    def __init__(self, kind, loc, detail):
        Exception.__init__(self, kind); self.kind = kind; self.loc = loc; self.detail = detail


class Fork(Exception):
    def __init__(self, alts):
        self.alts = alts          # list of (description, function(state) -> None)


# a byte class is a union of intervals ((lo, hi), ...) of unsigned byte values; the alphabet partitions 0..255 so that the analysed code (and the
# reference automaton) cannot tell two members of a class apart by a comparison with a constant, a mask or a shift
Z = ((0, 0),)
SP = ((32, 32),)


def is_high(c):
    if all(lo >= 128 for lo, hi in c): return True
    if all(hi < 128 for lo, hi in c): return False
    raise Imprecise('byte class straddles 0x80')


def single(c): return len(c) == 1 and c[0][0] == c[0][1]
def members(c, signed=False):
    for lo, hi in c:
        for v in range(lo, hi + 1): yield (v - 256 if (signed and v >= 128) else v)
def vmin(c, signed=False): return min(members(c, signed))
def vmax(c, signed=False): return max(members(c, signed))


def alphabet_for(P, roots, eq=(0,), order=()):
    """coarsest partition of 0..255 that respects every test the code reachable from roots applies to a byte. Each comparison of a byte-derived value
    (a loaded byte passed through extensions, masks, shifts with constants) against a constant is evaluated for all 256 byte values; bytes with the same
    outcomes everywhere form one class. Order comparisons between two bytes add the sign boundary. eq / order: constants the reference automaton itself
    distinguishes (singletons / cut points)."""
    preds = [tuple(v == c for v in range(256)) for c in eq] + [tuple(v >= c for v in range(256)) for c in order]
    def chain(f, v, byte, d=0):
        """value of operand v when the underlying loaded byte is `byte`: (int value, bits) or None"""
        if d > 8: return None
        if v['k'] == 'c': return (v['v'], v['bits'])
        if v['k'] != 'i': return None
        i = f.insts.get(v['id'])
        if i is None: return None
        if i.op == 'load': return (byte, 8) if i.d.get('bits') == 8 else None
        if i.op in ('zext', 'sext', 'trunc'):
            x = chain(f, i.ops[0], byte, d + 1)
            if x is None: return None
            val, bits = x; nb = i.d['bits']
            if i.op == 'sext': val = sval(val, bits) & ((1 << nb) - 1)
            return (val & ((1 << nb) - 1), nb)
        if i.op in ('and', 'or', 'xor', 'shl', 'lshr', 'ashr', 'add', 'sub'):
            x = chain(f, i.ops[0], byte, d + 1); y = chain(f, i.ops[1], byte, d + 1)
            if x is None or y is None: return None
            bits = i.d['bits']; M_ = (1 << bits) - 1; a_, b_ = x[0], y[0]
            r = {'and': a_ & b_, 'or': a_ | b_, 'xor': a_ ^ b_, 'shl': a_ << (b_ & 63), 'lshr': a_ >> (b_ & 63), 'ashr': sval(a_, bits) >> (b_ & 63), 'add': a_ + b_, 'sub': a_ - b_}[i.op]
            return (r & M_, bits)
        return None
    def has_load(f, v, d=0):
        if v['k'] != 'i' or d > 8: return False
        i = f.insts.get(v['id'])
        if i is None: return False
        if i.op == 'load': return i.d.get('bits') == 8
        if i.op in ('zext', 'sext', 'trunc', 'and', 'or', 'xor', 'shl', 'lshr', 'ashr', 'add', 'sub', 'select'): return any(has_load(f, o, d + 1) for o in i.ops)
        if i.op == 'phi': return any(has_load(f, o, d + 1) for o, _ in i.d['incoming'])
        if i.op == 'call': return i.d.get('bits') in (8, 32)
        return False
    fallback_eq = set(); fallback_cuts = set()
    for n in P.reachable_from(list(roots)):
        f = P.defined.get(n)
        if f is None: continue
        for i in f.all_insts():
            if i.op == 'icmp':
                a_, b_ = i.ops
                la, lb = has_load(f, a_), has_load(f, b_)
                if not la and not lb: continue
                pr = i.d['pred']
                if la and lb:
                    if pr not in ('eq', 'ne'): preds.append(tuple(v >= 128 for v in range(256)))
                    continue
                outs = []
                for v in range(256):
                    x = chain(f, a_, v); y = chain(f, b_, v)
                    if x is None or y is None: outs = None; break
                    bits = x[1]
                    xa, ya = (sval(x[0], bits), sval(y[0], bits)) if pr[0] == 's' else (x[0], y[0])
                    outs.append({'eq': xa == ya, 'ne': xa != ya, 'ult': xa < ya, 'slt': xa < ya, 'ule': xa <= ya, 'sle': xa <= ya, 'ugt': xa > ya, 'sgt': xa > ya, 'uge': xa >= ya, 'sge': xa >= ya}[pr])
                if outs is not None: preds.append(tuple(outs)); continue
                # a test the chain evaluator cannot follow (byte through a phi / helper): cut conservatively at its constant
                for v in i.ops:
                    if v['k'] == 'c' and (v['v'] < 256 or v['v'] >= (1 << v['bits']) - 128):
                        c = v['v'] & 0xff
                        if pr in ('eq', 'ne'): fallback_eq.add(c)
                        else: fallback_cuts |= {c, c + 1, 128}
            elif i.op == 'switch' and has_load(f, i.ops[0]):
                for cv, _ in i.d['cases']:
                    outs = []
                    for v in range(256):
                        x = chain(f, i.ops[0], v)
                        if x is None: outs = None; break
                        outs.append(x[0] == (cv & ((1 << x[1]) - 1)))
                    if outs is not None: preds.append(tuple(outs))
                    else: fallback_eq.add(cv & 0xff)
    for c in fallback_eq: preds.append(tuple(v == c for v in range(256)))
    for c in fallback_cuts: preds.append(tuple(v >= c for v in range(256)))
    groups = {}
    for v in range(256):
        groups.setdefault(tuple(p_[v] for p_ in preds), []).append(v)
    out = []
    for vs in groups.values():
        ivs = []; lo = prev = vs[0]
        for v in vs[1:]:
            if v != prev + 1: ivs.append((lo, prev)); lo = v
            prev = v
        ivs.append((lo, prev)); out.append(tuple(ivs))
    return sorted(out)


def cname(c):
    if c == Z: return 'NUL'
    if c == SP: return 'SP'
    return '[' + ','.join('%02x' % lo if lo == hi else '%02x-%02x' % (lo, hi) for lo, hi in c) + ']'


def _mask_const(cl, m):
    return all((v_ & m) == (cl[0] & m) for v_ in range(cl[0], cl[1] + 1))


def bchain(v):
    return v[4] if len(v) > 4 else ()


def C(v, bits):
    return ('c', v & ((1 << bits) - 1), bits)


def sval(v, bits):
    return v - (1 << bits) if v >> (bits - 1) else v


class Tape:
    """lazily materialised input string. Entries: ('c', class now, version, class as supplied) one cell; ('R', class) one or more unread-again cells of
    that class ahead of every cursor (look-ahead region, run-length abstracted); ('G',) cells behind the cursors that left the abstract state"""
    def __init__(self, name, alphabet, maxlen=None):
        self.name = name; self.alphabet = alphabet; self.maxlen = maxlen     # maxlen: strings longer than this are outside the analysed input class
        self.cells = []

    def clone(self):
        t = Tape(self.name, self.alphabet, self.maxlen); t.cells = list(self.cells)
        return t

    def ended(self):
        return bool(self.cells) and self.cells[-1][0] == 'c' and self.cells[-1][3] == Z

    def pattern(self):
        return ' '.join(cname(e[3]) if e[0] == 'c' else ('(' + cname(e[1]) + ')+' if e[0] == 'R' else '..') for e in self.cells)


class Frame:
    def __init__(self, fn, args):
        self.fn = fn; self.args = args; self.regs = {}; self.bb = 0; self.idx = 0; self.prev = None; self.entered = False

    def clone(self):
        f = Frame(self.fn, list(self.args)); f.regs = dict(self.regs); f.bb = self.bb; f.idx = self.idx; f.prev = self.prev; f.entered = self.entered
        return f


class State:
    def __init__(self):
        self.frames = []; self.tapes = {}; self.mem = {}; self.rel = {}; self.mon = None; self.path = []; self.events = []; self.written = frozenset()

    def clone(self):
        s = State()
        s.frames = [f.clone() for f in self.frames]
        s.tapes = {k: t.clone() for k, t in self.tapes.items()}
        s.mem = {k: dict(v) for k, v in self.mem.items()}
        s.rel = dict(self.rel); s.mon = self.mon.clone() if self.mon else None
        s.path = list(self.path); s.events = list(self.events); s.written = self.written
        return s

    # ---- bytes: identity = (tape, position, version)
    def cls(self, bid):
        e = self.tapes[bid[0]].cells[bid[1]]
        if e[0] != 'c': raise Imprecise('byte identity refers to an abstracted cell')
        return e[1]

    def ocls(self, tape, pos):
        e = self.tapes[tape].cells[pos]
        if e[0] != 'c': raise Imprecise('reference automaton refers to an abstracted cell')
        return e[3]

    def remap(self, tape, f):
        """renumber positions of one tape: f(old index) -> new index"""
        def rv(v):
            if isinstance(v, tuple) and v:
                if v[0] == 'p' and v[1] == tape: return ('p', tape, f(v[2]))
                if v[0] == 'b' and v[1][0] == tape: return ('b', (tape, f(v[1][1]), v[1][2])) + tuple(v[2:])
                if v[0] == 'agg': return ('agg', {k: rv(x) for k, x in v[1].items()})
            return v
        for fr in self.frames:
            fr.regs = {k: rv(v) for k, v in fr.regs.items()}
            fr.args = [rv(v) for v in fr.args]
        for o in self.mem:
            self.mem[o] = {k: (rv(v) if k != '#size' else v) for k, v in self.mem[o].items()}
        nr = {}
        for (a, b), r in self.rel.items():
            a2 = (a[0], f(a[1]), a[2]) if a[0] == tape else a
            b2 = (b[0], f(b[1]), b[2]) if b[0] == tape else b
            if a2 < b2: nr[(a2, b2)] = r
            else: nr[(b2, a2)] = {'lt': 'gt', 'gt': 'lt', 'eq': 'eq'}[r]
        self.rel = nr
        if self.mon is not None: self.mon.remap(tape, f)

    def order(self, a, b, signed):
        """numeric order of two abstract bytes: 'lt' / 'eq' / 'gt'; partitions when the classes overlap"""
        if a == b: return 'eq'
        ca, cb = self.cls(a), self.cls(b)
        if ca == cb and single(ca): return 'eq'
        opts = ['lt', 'eq', 'gt']
        if ca != cb:
            if vmax(ca, signed) < vmin(cb, signed): return 'lt'
            if vmin(ca, signed) > vmax(cb, signed): return 'gt'
            opts = ['lt', 'gt']
        k = (a, b) if a < b else (b, a)
        if k in self.rel:
            r = self.rel[k]
            return r if k == (a, b) else {'lt': 'gt', 'gt': 'lt', 'eq': 'eq'}[r]
        raise Fork([('%s %s %s' % (k[0][:2], o, k[1][:2]), (lambda s, k=k, o=o: s.rel.__setitem__(k, o))) for o in opts])


def liveness(f, addr_only=False, defined=None):
    """live-in sets of SSA value keys per block; with addr_only only uses through which a pointer can still be dereferenced by the analysed code count
    (address of a load / store, base of a GEP, cast, select, phi, argument of a call to library code)"""
    use = {}; deff = {}
    def keys(i):
        out = []
        ops = [v for v, _ in i.d['incoming']] if i.op == 'phi' else list(i.ops)
        if addr_only:
            if i.op == 'load': ops = ops[:1]
            elif i.op == 'store': ops = ops[:2]
            elif i.op == 'getelementptr': ops = ops[:1]
            elif i.op in ('bitcast', 'select', 'phi', 'inttoptr', 'ptrtoint', 'insertvalue', 'extractvalue', 'ret'): pass
            elif i.op == 'call':
                cal = i.d.get('callee')
                if not (cal and defined is not None and cal in defined): ops = []
            else: ops = []
        for v in ops:
            if v['k'] == 'i': out.append(('i', v['id']))
            elif v['k'] == 'a': out.append(('a', v['n']))
        for s in i.d.get('var_steps') or []:
            v = s['idx']
            if v['k'] == 'i': out.append(('i', v['id']))
            elif v['k'] == 'a': out.append(('a', v['n']))
        return out
    n = len(f.blocks)
    for b in range(n):
        u = set(); d = set()
        for i in f.blocks[b]:
            if i.op == 'phi':
                d.add(('i', i.id)); continue
            for k in keys(i):
                if k not in d: u.add(k)
            d.add(('i', i.id))
        use[b] = u; deff[b] = d
    phi_use = {}      # (pred, succ) -> keys used by phis of succ for that edge
    for b in range(n):
        for i in f.blocks[b]:
            if i.op != 'phi': break
            for v, pb in i.d['incoming']:
                if v['k'] == 'i': phi_use.setdefault((pb, b), set()).add(('i', v['id']))
                elif v['k'] == 'a': phi_use.setdefault((pb, b), set()).add(('a', v['n']))
    live_in = {b: set() for b in range(n)}
    ch = True
    while ch:
        ch = False
        for b in range(n - 1, -1, -1):
            out = set()
            for s in f.succs[b]:
                out |= live_in[s] | phi_use.get((b, s), set())
            new = use[b] | (out - deff[b])
            if new != live_in[b]:
                live_in[b] = new; ch = True
    return live_in, keys


class Explorer:
    def __init__(self, P, max_states=60000, sat=None, max_seconds=30, exact=False):
        import time
        self.P = P; self.max_states = max_states; self.sat = sat; self.exact = exact      # exact: bounded inputs, no abstraction of tape cells
        self.deadline = time.time() + max_seconds
        self._live = {}
        self.nstates = 0; self.nforks = 0; self.nreturns = 0

    def live(self, f):
        if f.name not in self._live: self._live[f.name] = liveness(f)
        return self._live[f.name]

    def live_addr(self, f):
        k = ('addr', f.name)
        if k not in self._live: self._live[k] = liveness(f, addr_only=True, defined=self.P.defined)
        return self._live[k]

    # ---------------------------------------------------------------- values
    def val(self, st, fr, v):
        k = v['k']
        if k == 'c': return C(v['v'], v['bits'])
        if k == 'i':
            if v['id'] not in fr.regs: raise Imprecise('use of an undefined value in %s' % fr.fn.name)
            return fr.regs[v['id']]
        if k == 'a': return fr.args[v['n']]
        if k == 'null': return C(0, 64)
        if k == 'f': return ('f', v['name'])
        if k == 'g': return ('g', v['name'], v.get('off', 0))
        if k == 'undef': return ('u',)
        raise Imprecise('operand kind %s' % k)

    def cell(self, st, tape, pos, inst, for_write=False):
        """materialise the tape up to pos; returns byte identity"""
        t = st.tapes[tape]
        if pos < 0:
            raise Found('out-of-bounds', inst.loc, 'access %d byte(s) before the start of the input string' % -pos)
        if pos < len(t.cells):
            e = t.cells[pos]
            if e[0] == 'c': return (tape, pos, e[2])
            if e[0] == 'G':
                raise Imprecise('re-read of a position that left the abstract state (%s[%d]) at %s' % (tape, pos, inst.loc))
            # a run of one or more cells of one class: this is its first cell; the run ends here or goes on
            c = e[1]
            def one(s_):
                s_.tapes[tape].cells[pos] = ('c', c, 0, c)
            def more(s_):
                tt = s_.tapes[tape]
                tt.cells[pos] = ('c', c, 0, c); tt.cells.insert(pos + 1, ('R', c))
                s_.remap(tape, lambda i: i + 1 if i > pos else i)
            raise Fork([('%s[%d] last of a run of %s' % (tape, pos, cname(c)), one), ('%s[%d] inside a run of %s' % (tape, pos, cname(c)), more)])
        if pos > len(t.cells):
            # cells in between are materialised first, in order (this raises Fork; the instruction is re-executed afterwards)
            self.cell(st, tape, len(t.cells), inst)
            raise Imprecise('internal: materialisation order')
        n = len(t.cells)
        if t.ended():
            raise Found('out-of-bounds', inst.loc, 'access past the terminating NUL of the input string %s' % tape)
        def mk(c):
            def f(s):
                tt = s.tapes[tape]; tt.cells.append(('c', c, 0, c))
                if s.mon is not None: s.mon.feed(tape, len(tt.cells) - 1, c)
            return f
        alpha = t.alphabet if (t.maxlen is None or n < t.maxlen) else [Z]
        raise Fork([('%s[%d] in %s' % (tape, n, cname(c)), mk(c)) for c in alpha])

    def bvals(self, st, v):
        """all values (unsigned integers of the value's current width) a byte-derived value takes over the members of its class"""
        bid, ext, bits = v[1], v[2], v[3]
        chain = bchain(v); w0 = v[5] if len(v) > 5 else bits
        out = set()
        for m in members(st.cls(bid)):
            if ext is None: val, wd = m, 8
            elif ext == 'z': val, wd = m, w0
            else: val, wd = (m - 256 if m >= 128 else m) & ((1 << w0) - 1), w0
            for op, c, nb in chain:
                M_ = (1 << nb) - 1
                if op == 'zext': val &= (1 << wd) - 1
                elif op == 'sext': val = sval(val, wd) & M_
                elif op == 'trunc': val &= M_
                elif op == 'and': val &= c
                elif op == 'or': val |= c
                elif op == 'xor': val ^= c
                elif op == 'shl': val = (val << (c & 63)) & M_
                elif op == 'lshr': val = val >> (c & 63)
                elif op == 'ashr': val = (sval(val, nb) >> (c & 63)) & M_
                elif op == 'add': val = (val + c) & M_
                elif op == 'sub': val = (val - c) & M_
                elif op == 'rsub': val = (c - val) & M_
                wd = nb
            out.add(val)
        return out

    def rng(self, st, v, signed):
        """numeric range of a byte-derived value"""
        _, bid, ext, bits = v
        c = st.cls(bid)
        if ext == 's' and not signed:
            M_ = (1 << bits)
            vals = [v if v >= 0 else M_ + v for v in members(c, True)]
            return (min(vals), max(vals))
        sg = signed and ext in (None, 's')
        return (vmin(c, sg), vmax(c, sg))

    def icmp(self, st, inst, a, b):
        p = inst.d['pred']; signed = p[0] == 's'
        def concrete(x, y, bits):
            if signed: x, y = sval(x, bits), sval(y, bits)
            return {'eq': x == y, 'ne': x != y, 'ult': x < y, 'ule': x <= y, 'ugt': x > y, 'uge': x >= y,
                    'slt': x < y, 'sle': x <= y, 'sgt': x > y, 'sge': x >= y}[p]
        if a[0] == 'c' and b[0] == 'c': return concrete(a[1], b[1], a[2])
        if a[0] == 'p' or b[0] == 'p':
            if a[0] == 'p' and b[0] == 'p':
                if a[1] != b[1]:
                    if p in ('eq', 'ne'): return p == 'ne'
                    raise Imprecise('ordering of pointers into different objects at %s' % inst.loc)
                return concrete(a[2] & ((1 << 64) - 1), b[2] & ((1 << 64) - 1), 64) if not signed else concrete(a[2] % (1 << 64), b[2] % (1 << 64), 64)
            o = b if a[0] == 'p' else a
            if o[0] == 'c' and o[1] == 0 and p in ('eq', 'ne'): return p == 'ne'
            raise Imprecise('pointer / integer comparison at %s' % inst.loc)
        if a[0] == 'ge' or b[0] == 'ge':
            flip = a[0] != 'ge'
            x, c = (b, a) if flip else (a, b)
            if c[0] != 'c': raise Imprecise('saturated counter compared with a non-constant at %s' % inst.loc)
            pp = p
            if flip: pp = {'ult': 'ugt', 'ugt': 'ult', 'ule': 'uge', 'uge': 'ule', 'slt': 'sgt', 'sgt': 'slt', 'sle': 'sge', 'sge': 'sle'}.get(p, p)
            S = x[1]; cv = sval(c[1], c[2]) if signed else c[1]
            if pp in ('uge', 'sge') and cv <= S: return True
            if pp in ('ugt', 'sgt') and cv < S: return True
            if pp in ('ult', 'slt') and cv <= S: return False
            if pp in ('ule', 'sle') and cv < S: return False
            if pp == 'eq' and cv < S: return False
            if pp == 'ne' and cv < S: return True
            raise Imprecise('saturated counter compared with %d at %s' % (cv, inst.loc))
        if a[0] == 'b' and b[0] == 'b':
            if a[2] != b[2] or bchain(a) or bchain(b): raise Imprecise('comparison of differently derived bytes at %s' % inst.loc)
            sg = signed if a[2] in (None, 's') else False
            o = st.order(a[1], b[1], sg)
            return {'eq': o == 'eq', 'ne': o != 'eq', 'ult': o == 'lt', 'slt': o == 'lt', 'ule': o != 'gt', 'sle': o != 'gt',
                    'ugt': o == 'gt', 'sgt': o == 'gt', 'uge': o != 'lt', 'sge': o != 'lt'}[p]
        if (a[0] == 'b' and b[0] == 'c') or (a[0] == 'c' and b[0] == 'b'):
            flip = a[0] == 'c'
            x, c = (b, a) if flip else (a, b)
            pp = p
            if flip: pp = {'ult': 'ugt', 'ugt': 'ult', 'ule': 'uge', 'uge': 'ule', 'slt': 'sgt', 'sgt': 'slt', 'sle': 'sge', 'sge': 'sle'}.get(p, p)
            bits = c[2]
            outs = set()
            for xv in self.bvals(st, x):
                xa, ca_ = (sval(xv & ((1 << bits) - 1), bits), sval(c[1], bits)) if signed else (xv & ((1 << bits) - 1), c[1])
                outs.add({'eq': xa == ca_, 'ne': xa != ca_, 'ult': xa < ca_, 'slt': xa < ca_, 'ule': xa <= ca_, 'sle': xa <= ca_, 'ugt': xa > ca_, 'sgt': xa > ca_, 'uge': xa >= ca_, 'sge': xa >= ca_}[pp])
            if len(outs) == 1: return outs.pop()
            raise Imprecise('byte compared with the constant %d at %s: not decided by its class' % (c[1], inst.loc))
        raise Imprecise('comparison of %s and %s at %s' % (a[0], b[0], inst.loc))

    def binop(self, st, inst, a, b):
        op = inst.op; bits = inst.d['bits']
        if a[0] == 'c' and b[0] == 'c':
            x, y = a[1], b[1]; M = (1 << bits) - 1
            if op == 'add': r = x + y
            elif op == 'sub': r = x - y
            elif op == 'mul': r = x * y
            elif op == 'and': r = x & y
            elif op == 'or': r = x | y
            elif op == 'xor': r = x ^ y
            elif op == 'shl': r = x << (y & 63)
            elif op == 'lshr': r = x >> (y & 63)
            elif op == 'ashr': r = sval(x, bits) >> (y & 63)
            elif op in ('udiv', 'urem') and y: r = x // y if op == 'udiv' else x % y
            else: raise Imprecise('operator %s at %s' % (op, inst.loc))
            r &= M
            if self.sat is not None and op == 'add' and r > self.sat and r < (1 << (bits - 1)): return ('ge', self.sat, bits)
            return ('c', r, bits)
        if a[0] == 'ge' and b[0] == 'c' and op == 'add' and sval(b[1], b[2]) >= 0: return a
        if a[0] == 'p' and b[0] == 'p' and op == 'sub' and a[1] == b[1]:
            if a[1] in st.tapes:
                lo, hi = sorted((a[2], b[2]))
                if any(e[0] != 'c' for e in st.tapes[a[1]].cells[max(lo, 0):hi]): raise Imprecise('pointer difference across abstracted cells at %s' % inst.loc)
            return C(a[2] - b[2], bits)
        if op in ('and', 'or', 'xor', 'shl', 'lshr', 'ashr', 'add', 'sub') and ((a[0] == 'b' and b[0] == 'c') or (a[0] == 'c' and b[0] == 'b' and op in ('and', 'or', 'xor', 'add', 'sub'))):
            x, c = (a, b) if a[0] == 'b' else (b, a)
            o2 = 'rsub' if (op == 'sub' and a[0] == 'c') else op
            if x[2] is None and bits != 8: raise Imprecise('operator %s on an unextended byte at %s' % (op, inst.loc))
            nv = ('b', x[1], x[2], bits, bchain(x) + ((o2, c[1], bits),), x[5] if len(x) > 5 else x[3])
            vs = self.bvals(st, nv)
            if len(vs) == 1: return C(vs.pop(), bits)
            if o2 == 'and' and c[1] == (1 << x[3]) - 1: return x
            return nv
        raise Imprecise('operator %s on %s, %s at %s (a byte used in arithmetic?)' % (op, a[0], b[0], inst.loc))

    # ---------------------------------------------------------------- memory
    def load(self, st, ptr, inst):
        if ptr[0] == 'c' and ptr[1] == 0: raise Found('null-dereference', inst.loc, 'load through NULL')
        if ptr[0] == 'g': return ('gl', ptr[1], ptr[2])      # value of a global: opaque (only calls through the dependency table are understood)
        if ptr[0] != 'p': raise Imprecise('load through %s at %s' % (ptr[0], inst.loc))
        obj, pos = ptr[1], ptr[2]
        if obj in st.tapes:
            if inst.d['size'] != 1: raise Imprecise('wide load from an input string at %s' % inst.loc)
            bid = self.cell(st, obj, pos, inst)
            return ('b', bid, None, 8)
        m = st.mem.get(obj)
        if m is None: raise Imprecise('load from unknown object %s at %s' % (obj, inst.loc))
        lim = m.get('#size')
        if lim is not None and not (0 <= pos and pos + inst.d['size'] <= lim):
            raise Found('out-of-bounds', inst.loc, 'load at offset %d of %s (%d bytes)' % (pos, obj, lim))
        if pos not in m: raise Imprecise('load of an unwritten cell %s+%d at %s' % (obj, pos, inst.loc))
        if st.mon is not None and obj in getattr(st.mon, 'outputs', ()): raise Imprecise('output array %s read back at %s' % (obj, inst.loc))
        return m[pos]

    def store(self, st, ptr, v, inst):
        if ptr[0] == 'c' and ptr[1] == 0: raise Found('null-dereference', inst.loc, 'store through NULL')
        if ptr[0] != 'p': raise Imprecise('store through %s at %s' % (ptr[0], inst.loc))
        obj, pos = ptr[1], ptr[2]
        if obj in st.tapes:
            t = st.tapes[obj]
            if inst.d['size'] != 1: raise Imprecise('wide store into an input string at %s' % inst.loc)
            self.cell(st, obj, pos, inst)
            if getattr(st.mon, 'readonly', None) and obj in st.mon.readonly:
                raise Found('input-modified', inst.loc, 'store into the read-only input string %s' % obj)
            if v[0] == 'c':
                c = next((k for k in t.alphabet if any(lo_ <= (v[1] & 0xff) <= hi_ for lo_, hi_ in k)), None)
                if c is None or not single(c): raise Imprecise('store of the constant %d into a string at %s' % (v[1], inst.loc))
            elif v[0] == 'b' and not bchain(v): c = st.cls(v[1])
            else: raise Imprecise('store of %s into a string at %s' % (v[0], inst.loc))
            e = t.cells[pos]
            t.cells[pos] = ('c', c, e[2] + 1, e[3])
            if st.mon is not None: st.mon.wrote(obj, pos, c, v)
            return
        m = st.mem.get(obj)
        if m is None: raise Imprecise('store to unknown object %s at %s' % (obj, inst.loc))
        lim = m.get('#size')
        if lim is not None and not (0 <= pos and pos + inst.d['size'] <= lim):
            raise Found('out-of-bounds', inst.loc, 'store at offset %d of %s (%d bytes)' % (pos, obj, lim))
        m[pos] = v
        st.written = st.written | {(obj, pos)}
        if st.mon is not None: st.mon.stored(obj, pos, v, inst)

    # ---------------------------------------------------------------- one instruction
    def step(self, st):
        fr = st.frames[-1]; f = fr.fn
        i = f.blocks[fr.bb][fr.idx]
        op = i.op
        V = lambda k: self.val(st, fr, i.ops[k])
        if op == 'phi' or self.P.is_dbg(i):
            fr.idx += 1; return None
        if op in ('add', 'sub', 'mul', 'and', 'or', 'xor', 'shl', 'lshr', 'ashr', 'udiv', 'urem'):
            fr.regs[i.id] = self.binop(st, i, V(0), V(1))
        elif op == 'icmp':
            fr.regs[i.id] = C(int(self.icmp(st, i, V(0), V(1))), 1)
        elif op in ('zext', 'sext'):
            a = V(0); bits = i.d['bits']
            if a[0] == 'c':
                fr.regs[i.id] = C(a[1] if op == 'zext' else sval(a[1], a[2]), bits)
            elif a[0] == 'b' and bchain(a):
                fr.regs[i.id] = ('b', a[1], a[2], bits, bchain(a) + ((op, None, bits),), a[5])
            elif a[0] == 'b' and a[2] is None:
                fr.regs[i.id] = ('b', a[1], 'z' if op == 'zext' else 's', bits)
            elif a[0] == 'b' and a[2] == 'z' and op in ('zext', 'sext'):
                fr.regs[i.id] = ('b', a[1], 'z', bits)
            elif a[0] == 'b' and a[2] == 's' and op == 'sext':
                fr.regs[i.id] = ('b', a[1], 's', bits)
            elif a[0] == 'ge': fr.regs[i.id] = ('ge', a[1], bits)
            else: raise Imprecise('%s of %s at %s' % (op, a[0], i.loc))
        elif op == 'trunc':
            a = V(0); bits = i.d['bits']
            if a[0] == 'c': fr.regs[i.id] = C(a[1], bits)
            elif a[0] == 'b' and bchain(a): fr.regs[i.id] = ('b', a[1], a[2], bits, bchain(a) + (('trunc', None, bits),), a[5])
            elif a[0] == 'b' and bits == 8: fr.regs[i.id] = ('b', a[1], None, 8)
            elif a[0] == 'b' and bits > 8: fr.regs[i.id] = ('b', a[1], a[2], bits)
            else: raise Imprecise('trunc of %s at %s' % (a[0], i.loc))
        elif op in ('bitcast', 'inttoptr', 'ptrtoint'):
            fr.regs[i.id] = V(0)
        elif op == 'getelementptr':
            b = V(0)
            if b[0] == 'c' and b[1] == 0: raise Imprecise('pointer arithmetic on NULL at %s' % i.loc)
            if b[0] == 'g':
                off = b[2] + i.d['const_off']
                for s in i.d['var_steps']:
                    x = self.val(st, fr, s['idx'])
                    if x[0] != 'c': raise Imprecise('global indexed by %s at %s' % (x[0], i.loc))
                    off += sval(x[1], x[2]) * s['stride']
                fr.regs[i.id] = ('g', b[1], off)
            else:
                if b[0] != 'p': raise Imprecise('GEP on %s at %s' % (b[0], i.loc))
                off = b[2] + i.d['const_off']
                if b[1] in st.tapes and (i.d['var_steps'] or abs(i.d['const_off']) > 1):
                    pass        # (checked below once the target is known)
                for s in i.d['var_steps']:
                    x = self.val(st, fr, s['idx'])
                    if x[0] == 'ge': raise Imprecise('string indexed by a saturated counter at %s' % i.loc)
                    if x[0] != 'c': raise Imprecise('pointer indexed by %s at %s' % (x[0], i.loc))
                    off += sval(x[1], x[2]) * s['stride']
                if b[1] in st.tapes and off != b[2]:
                    # positions are entries of the abstract tape: a step may only cross single cells
                    cells_ = st.tapes[b[1]].cells
                    lo_, hi_ = (b[2], off) if off > b[2] else (off, b[2])
                    if lo_ < 0: raise Found('out-of-bounds', i.loc, 'pointer moved before the start of the input string')
                    if any(e_[0] != 'c' for e_ in cells_[lo_:min(hi_, len(cells_))]): raise Imprecise('pointer moved across abstracted cells at %s' % i.loc)
                    if hi_ > len(cells_) + 8: raise Imprecise('pointer moved far beyond the cells read so far at %s' % i.loc)      # (cells skipped unread are materialised, in order, when the target is accessed)
                fr.regs[i.id] = ('p', b[1], off)
        elif op == 'load':
            fr.regs[i.id] = self.load(st, V(0), i)
        elif op == 'store':
            self.store(st, V(1), V(0), i)
        elif op == 'select':
            c = V(0)
            if c[0] != 'c': raise Imprecise('select on %s at %s' % (c[0], i.loc))
            fr.regs[i.id] = V(1) if c[1] else V(2)
        elif op == 'alloca':
            name = 'l:%s:%d:%d' % (f.name, i.id, len(st.frames))
            st.mem[name] = {'#size': i.d['alloc_size']}
            fr.regs[i.id] = ('p', name, 0)
        elif op == 'br':
            if len(i.ops) == 1: tgt = f.succs[fr.bb][0]
            else:
                c = V(0)
                if c[0] != 'c': raise Imprecise('branch on %s at %s' % (c[0], i.loc))
                tgt = f.succs[fr.bb][0] if c[1] else f.succs[fr.bb][1]
            return ('jump', tgt)
        elif op == 'switch':
            c = V(0)
            if c[0] == 'b':
                # switch on a byte: the case constants must be class representatives (0, 0x20)
                cl = st.cls(c[1]); tgt = None
                vs = set(members(cl, c[2] == 's'))
                for cv, t_ in i.d['cases']:
                    cvs = sval(cv & ((1 << c[3]) - 1), c[3]) if c[2] == 's' else cv
                    if cvs in vs:
                        if len(vs) != 1: raise Imprecise('switch on a byte with case %d at %s' % (cv, i.loc))
                        tgt = t_
                return ('jump', tgt if tgt is not None else i.d['default'])
            if c[0] != 'c': raise Imprecise('switch on %s at %s' % (c[0], i.loc))
            return ('jump', dict((a, b) for a, b in i.d['cases']).get(c[1], i.d['default']))
        elif op == 'ret':
            return ('ret', V(0) if i.ops else None)
        elif op == 'call':
            t = self.P.call_target(i)
            if t[0] == 'direct' and t[1] in self.P.defined:
                g = self.P.defined[t[1]]
                args = [self.val(st, fr, a) for a in i.ops[:len(g.params)]]
                if any(p.get('byval') for p in g.params): raise Imprecise('by-value aggregate argument at %s' % i.loc)
                if len(st.frames) > 12: raise Imprecise('call depth at %s' % i.loc)
                fr.idx += 1
                st.frames.append(Frame(g, args))
                return ('called',)
            if t[0] == 'direct' and (t[1].startswith('llvm.lifetime') or t[1].startswith('llvm.dbg')):
                pass
            elif t[0] == 'direct' and t[1] in ('__assert_fail', 'abort'):
                return ('abort',)
            elif t[0] == 'direct' and (t[1].startswith('llvm.memcpy') or t[1] in ('memcpy', 'memmove') or t[1].startswith('llvm.memmove')):
                d_, s_, n_ = V(0), V(1), V(2)
                if n_[0] != 'c' or d_[0] != 'p' or s_[0] != 'p': raise Imprecise('memcpy with a non-constant length / pointer at %s' % i.loc)
                if n_[1] > 4096: raise Imprecise('memcpy of %d bytes at %s' % (n_[1], i.loc))
                one = type('I', (), {'d': {'size': 1}, 'loc': i.loc})()
                vals = [self.load(st, ('p', s_[1], s_[2] + k), one) for k in range(n_[1])]
                for k, v_ in enumerate(vals): self.store(st, ('p', d_[1], d_[2] + k), v_, one)
                if i.d.get('bits') or (i.d.get('ty') or '').endswith('*'): fr.regs[i.id] = d_
            elif st.mon is not None and st.mon.call(self, st, fr, i, t, [self.val(st, fr, a) for a in i.ops[:8] if a['k'] in ('i', 'a', 'c', 'null', 'g')]):
                pass
            else:
                raise Imprecise('call to %s at %s' % (t, i.loc))
        elif op in ('extractvalue', 'insertvalue'):
            if op == 'insertvalue':
                agg = V(0) if i.ops[0]['k'] != 'undef' else ('agg', {})
                if agg[0] != 'agg': agg = ('agg', {})
                d = dict(agg[1]); d[tuple(i.d['indices'])] = V(1)
                fr.regs[i.id] = ('agg', d)
            else:
                agg = V(0)
                if agg[0] != 'agg' or tuple(i.d['indices']) not in agg[1]: raise Imprecise('extractvalue at %s' % i.loc)
                fr.regs[i.id] = agg[1][tuple(i.d['indices'])]
        elif op == 'unreachable':
            return ('abort',)
        else:
            raise Imprecise('opcode %s at %s' % (op, i.loc))
        fr.idx += 1
        return None

    # ---------------------------------------------------------------- abstract-state key
    def key(self, st):
        """canonical key of the abstract state at a block entry"""
        deref = {t: set() for t in st.tapes}      # positions of pointers the code may dereference next (SSA-live, cursor variables)
        other = {t: set() for t in st.tapes}      # positions that are only remembered (outputs, reference automaton)
        bytes_ = {t: set() for t in st.tapes}     # positions of byte values still live
        def scan(v, into=None):
            if isinstance(v, tuple) and v:
                if v[0] == 'p' and v[1] in st.tapes: (into if into is not None else deref)[v[1]].add(v[2])
                elif v[0] == 'b': bytes_[v[1][0]].add(v[1][1])
                elif v[0] == 'agg':
                    for x in v[1].values(): scan(x, into)
        live_vals = []
        for d, fr in enumerate(st.frames):
            li, keys = self.live(fr.fn)
            if d == len(st.frames) - 1:
                lv = set(li[fr.bb]) | {('i', i.id) for i in fr.fn.blocks[fr.bb] if i.op == 'phi'}      # (the merge point lies after the block's phis)
            else:
                blk = fr.fn.blocks[fr.bb]
                lv = set()
                for i in blk[fr.idx:]:
                    lv |= set(keys(i))
                for s_ in fr.fn.succs[fr.bb]:
                    lv |= li[s_]
                    for i in fr.fn.blocks[s_]:
                        if i.op != 'phi': break
                        for v, pb in i.d['incoming']:
                            if pb == fr.bb and v['k'] == 'i': lv.add(('i', v['id']))
                            elif pb == fr.bb and v['k'] == 'a': lv.add(('a', v['n']))
            la, akeys = self.live_addr(fr.fn)
            if d == len(st.frames) - 1:
                lva = set(la[fr.bb]) | {('i', i.id) for i in fr.fn.blocks[fr.bb] if i.op == 'phi'}
            else:
                lva = set()
                for i in fr.fn.blocks[fr.bb][fr.idx:]: lva |= set(akeys(i))
                for s_ in fr.fn.succs[fr.bb]:
                    lva |= la[s_]
                    for i in fr.fn.blocks[s_]:
                        if i.op != 'phi': break
                        for v, pb in i.d['incoming']:
                            if pb == fr.bb and v['k'] == 'i': lva.add(('i', v['id']))
                            elif pb == fr.bb and v['k'] == 'a': lva.add(('a', v['n']))
            vals = []
            for k in sorted(lv):
                v = fr.regs.get(k[1]) if k[0] == 'i' else (fr.args[k[1]] if k[1] < len(fr.args) else None)
                if v is None: continue
                scan(v, None if k in lva else other); vals.append((k, v))
            live_vals.append((fr.fn.name, fr.bb if d == len(st.frames) - 1 else (fr.bb, fr.idx), vals))
        memv = []
        outs = getattr(st.mon, 'outputs', ()) if st.mon is not None else ()
        for o in sorted(st.mem):
            if o in outs: continue            # output arrays are checked by the reference automaton when they are written
            small = (st.mem[o].get('#size') or 0) <= 16
            for off in sorted(k for k in st.mem[o] if k != '#size'):
                # a pointer cell counts as a cursor only if the analysed code itself stored it (cursor variables), not the harness' argument cells
                v = st.mem[o][off]; scan(v, None if (small and (o, off) in st.written) else other); memv.append((o, off, v))
        monk = st.mon.key(st, lambda v: scan(v, other)) if st.mon is not None else None
        cells = {}; ranks = {}
        relpos = {t: set() for t in st.tapes}
        for (a_, b_) in st.rel:
            relpos[a_[0]].add(a_[1]); relpos[b_[0]].add(b_[1])
        for t in st.tapes:
            tp = st.tapes[t]
            n = len(tp.cells)
            window = set()
            for p in deref[t]:
                for q in (p, p + 1, p + 2):
                    if 0 <= q < n: window.add(q)
            # relations are kept only between cells that stay in the state for another reason
            keepcell = window | {p for p in other[t] if 0 <= p < n} | {p for p in bytes_[t] if 0 <= p < n}
            if self.exact:
                ranks[t] = {i: i for i in range(n + 1)}; cells[t] = tuple(tp.cells); continue
            M = min(deref[t]) if deref[t] else len(tp.cells)        # cells behind every cursor are forgotten; cells ahead of the hindmost cursor are run-length abstracted
            new = []; mp = {}
            for i, e in enumerate(tp.cells):
                if e[0] == 'c' and (i in keepcell or e[2] > 0):
                    mp[i] = len(new); new.append(e); continue
                if i >= M and e[0] in ('c', 'R') and not (e[0] == 'c' and e[3] == Z):
                    c = e[1] if e[0] == 'R' else e[3]
                    if new and new[-1] == ('R', c) and i not in deref[t] and i not in other[t]: mp[i] = len(new) - 1
                    else: mp[i] = len(new); new.append(('R', c))
                    continue
                if e[0] == 'c' and e[3] == Z:
                    mp[i] = len(new); new.append(e); continue       # the terminator is never abstracted
                if new and new[-1] == ('G',): mp[i] = len(new) - 1
                else: mp[i] = len(new); new.append(('G',))
            mp[n] = len(new)
            if new != tp.cells:
                tp.cells = new
                st.remap(t, lambda i, mp=mp: mp.get(i, i if i < 0 else mp[n] + (i - n)))
                st.rel = {k: r for k, r in st.rel.items() if all(st.tapes[x[0]].cells[x[1]][0] == 'c' for x in k if x[1] < len(st.tapes[x[0]].cells))}
            win2 = set()
            for p in {mp.get(p, p) for p in deref[t]}:
                for q in (p, p + 1, p + 2): win2.add(q)
            byt = {mp.get(p, p) for p in bytes_[t]}
            # forgotten stretches behind every cursor do not distinguish abstract states: positions are ranked without them
            M2 = min({mp.get(p, p) for p in deref[t]}) if deref[t] else len(tp.cells)
            lay = []; rk = {}; r = 0
            for i, e in enumerate(tp.cells):
                rk[i] = r
                if e[0] == 'G' and i < M2: continue
                r += 1
                if e[0] == 'c': lay.append(('c', e[1], e[2] > 0, e[3]) if (i in win2 or i in byt or e[3] == Z) else ('c',))
                else: lay.append(e)
            rk[len(tp.cells)] = r
            ranks[t] = rk
            cells[t] = tuple(lay)
        def cv(v):
            if isinstance(v, tuple) and v:
                if v[0] == 'p' and v[1] in st.tapes:
                    rk = ranks[v[1]]; n_ = len(st.tapes[v[1]].cells)
                    return ('p', v[1], rk[v[2]] if v[2] in rk else (v[2] if v[2] < 0 else rk[n_] + v[2] - n_))
                if v[0] == 'b': return ('b', (v[1][0], ranks[v[1][0]].get(v[1][1], v[1][1]), v[1][2])) + tuple(v[2:])
                if v[0] == 'agg': return ('agg', tuple(sorted((k, cv(x)) for k, x in v[1].items())))
            return v
        # (values are re-read from the state: compaction may have renumbered positions)
        kv = []
        for d, (fn, where, vals) in enumerate(live_vals):
            fr = st.frames[d]
            kv.append((fn, where, tuple((k, cv(fr.regs.get(k[1]) if k[0] == 'i' else fr.args[k[1]])) for k, _ in vals)))
        kv = tuple(kv)
        km = tuple((o, off, cv(st.mem[o][off])) for o, off, _ in memv)
        rel = tuple(sorted(((a_[0], ranks[a_[0]].get(a_[1], a_[1]), a_[2]), (b_[0], ranks[b_[0]].get(b_[1], b_[1]), b_[2]), r_) for (a_, b_), r_ in st.rel.items()))
        return (kv, km, tuple(sorted(cells.items())), rel, None if monk is None else monk(cv))

    # ---------------------------------------------------------------- fixpoint
    def run(self, st0, on_return, on_abort=None):
        """explore from st0 until every abstract state has been visited; on_return(state, value) is called at each return of the outermost function"""
        work = [st0]; seen = set()
        while work:
            st = work.pop()
            while True:
                try:
                    fr = st.frames[-1]
                    if fr.idx == 0 and not fr.entered:
                        # block entry: phis in parallel, then the merge point
                        new = {}
                        for i in fr.fn.blocks[fr.bb]:
                            if i.op != 'phi': break
                            for v, pb in i.d['incoming']:
                                if pb == fr.prev: new[i.id] = self.val(st, fr, v)
                        fr.regs.update(new)
                        if st.mon is not None: st.mon.advance(self, st)
                        if self.exact:
                            self.nstates += 1        # bounded inputs: every run ends by itself, no merging needed (and no abstraction of the tape)
                        else:
                            k = self.key(st)
                            if k in seen: break
                            seen.add(k); self.nstates += 1
                        if self.nstates > self.max_states: raise Imprecise('abstract state budget exceeded (%d)' % self.max_states)
                        if self.nstates % 64 == 0:
                            import time
                            if time.time() > self.deadline: raise Imprecise('time budget of the string abstraction exceeded after %d abstract states' % self.nstates)
                        fr.entered = True
                    r = self.step(st)
                    if r is None: continue
                    if r[0] == 'jump':
                        fr.prev, fr.bb, fr.idx, fr.entered = fr.bb, r[1], 0, False
                    elif r[0] == 'called':
                        pass
                    elif r[0] == 'abort':
                        if on_abort: on_abort(st)
                        break
                    elif r[0] == 'ret':
                        st.frames.pop()
                        if not st.frames:
                            self.nreturns += 1
                            fin = self.finish(st, r[1], on_return)
                            work.extend(fin)
                            break
                        caller = st.frames[-1]
                        ci = caller.fn.blocks[caller.bb][caller.idx - 1]
                        if ci.d['bits'] or (ci.d.get('ty') or '').endswith('*') or r[1] is not None:
                            if r[1] is not None: caller.regs[ci.id] = r[1]
                except Fork as fk:
                    self.nforks += 1
                    for desc, fn in fk.alts:
                        s2 = st.clone(); fn(s2); s2.path.append(desc)
                        work.append(s2)
                    break
        return self.nstates

    def finish(self, st, ret, on_return):
        """outermost return: let the reference automaton reach a verdict (materialising further input cells if it needs them), then compare"""
        st.frames = []
        pending = [st]; seen = set()
        while pending:
            s = pending.pop()
            try:
                s.mon.advance(self, s)
                tape = s.mon.needs(s)
                if tape is None:
                    on_return(s, ret); continue
                t = s.tapes[tape]
                if t.ended():
                    on_return(s, ret); continue
                k = self.key(s)
                if k in seen: continue
                seen.add(k)
                if len(seen) > 4000: raise Imprecise('reference automaton needs unboundedly many further input cells')
                t = s.tapes[tape]; n = len(t.cells)
                for c in t.alphabet:
                    s2 = s.clone(); tt = s2.tapes[tape]; tt.cells.append(('c', c, 0, c)); s2.mon.feed(tape, n, c); s2.path.append('%s[%d] in %s' % (tape, n, cname(c)))
                    pending.append(s2)
            except Fork as fk:
                for desc, fn in fk.alts:
                    s2 = s.clone(); fn(s2); s2.path.append(desc); pending.append(s2)
        return []


def witness(st):
    """class pattern of the strings of this abstract state, e.g. key = 'AAAA' 'Z'"""
    return {n: t.pattern() for n, t in st.tapes.items()}


# ======================================================================================= reference automata
class CmpMonitor:
    """reference matching rule of a word comparator on (key, element): with accents the non-ASCII bytes of both strings are ignored; the result
    is 0 iff the (stripped) strings are equal or, with prefix, the key is a prefix of the element at least n characters long; otherwise its sign is
    the order of the first differing pair (end of string = NUL)"""
    def __init__(self, prefix, accents, signed, n=4):
        self.prefix = prefix; self.accents = accents; self.signed = signed; self.n = n
        self.q = {'K': [], 'E': []}; self.matched = 0; self.verdict = None; self.why = None
        self.readonly = {'K', 'E'}

    def clone(self):
        m = CmpMonitor(self.prefix, self.accents, self.signed, self.n)
        m.q = {k: list(v) for k, v in self.q.items()}; m.matched = self.matched; m.verdict = self.verdict; m.why = self.why
        return m

    def feed(self, tape, pos, cls):
        if self.verdict is not None: return
        if self.accents and is_high(cls): return
        self.q[tape].append(pos)

    def wrote(self, *a): pass
    def stored(self, *a): pass
    def call(self, *a): return False
    def remap(self, tape, f): self.q[tape] = [f(p) for p in self.q[tape]]

    def advance(self, ex, st):
        while self.verdict is None:
            if self.q['K'] and st.ocls('K', self.q['K'][0]) == Z and self.prefix and self.matched >= self.n:
                self.verdict = 0; self.why = 'the key ended after >= %d matching characters' % self.n; break
            if not self.q['K'] or not self.q['E']: break
            a = ('K', self.q['K'][0], 0); b = ('E', self.q['E'][0], 0)
            ca = st.ocls('K', a[1]); cb = st.ocls('E', b[1])
            if ca == Z and cb == Z:
                self.verdict = 0; self.why = 'both strings ended'; break
            o = st.order(a, b, self.signed)
            if o == 'eq':
                self.q['K'].pop(0); self.q['E'].pop(0); self.matched = min(self.matched + 1, self.n)
            else:
                self.verdict = -1 if o == 'lt' else 1; self.why = 'first difference after %d matching character(s): key byte %s element byte' % (self.matched, '<' if o == 'lt' else '>')

    def needs(self, st):
        if self.verdict is not None: return None
        if not self.q['K']: return 'K'
        return 'E'

    def key(self, st, scan):
        for t in ('K', 'E'):
            for p in self.q[t]: scan(('p', t, p))
        return lambda cv: (self.verdict, self.matched, tuple(cv(('p', 'K', p)) for p in self.q['K']), tuple(cv(('p', 'E', p)) for p in self.q['E']))


class TokMonitor:
    """reference tokeniser on one NUL-terminated buffer: tokens are the segments between single ASCII spaces, one empty last segment is dropped;
    the result is the token count (nwords+1 standing for 'more'); words[k] points at the start of token k (stored in order, checked when stored) and
    each reported token is NUL-terminated in place: exactly the separators ending the first nwords tokens are overwritten with NUL, nothing else"""
    outputs = ('words',)

    def __init__(self, nwords=16):
        self.nw = nwords; self.nsep = 0; self.cur_start = 0; self.prev_start = None; self.last_sep = None; self.last_sep_written = False
        self.end = None; self.after = False; self.last_empty = True; self.nstored = 0; self.nwritten = 0; self.bad = None; self.readonly = set()

    def clone(self):
        m = TokMonitor(self.nw); m.__dict__.update(self.__dict__)
        return m

    def feed(self, tape, pos, cls):
        if self.end is not None: return
        if cls == Z: self.end = pos; return
        if self.nsep >= self.nw: self.after = True
        if cls == SP:
            self.nsep = min(self.nsep + 1, self.nw + 1)
            self.prev_start = self.cur_start; self.cur_start = pos + 1; self.last_sep = pos; self.last_sep_written = False
            self.last_empty = True
        else:
            self.last_empty = False

    def expected(self):
        if self.after: return self.nw + 1
        if self.end is not None:
            n = self.nsep + 1 - (1 if self.last_empty else 0)
            return n if n <= self.nw else self.nw + 1
        return None

    def wrote(self, obj, pos, cls, v):
        if cls == Z and pos == self.last_sep and not self.last_sep_written and self.nsep <= self.nw:
            self.last_sep_written = True; self.nwritten += 1
        elif cls == Z and pos == self.end: pass
        elif not self.bad:
            self.bad = 'the tokeniser overwrites a byte of the phrase with class %s that is not the separator ending one of the first %d tokens' % (cname(cls), self.nw)

    def stored(self, obj, pos, v, inst):
        if obj != 'words': return
        k = pos // 8
        want = None
        if k == self.nstored:
            if k == self.nsep or (k == self.nw and self.nsep > self.nw): want = self.cur_start
            elif k == self.nsep - 1: want = self.prev_start
        if want is None or v != ('p', 'T', want):
            if not self.bad: self.bad = 'words[%d] is not set to the start of token %d (stored in order, at the time the token is delimited)' % (k, k)
        else:
            self.nstored += 1

    def call(self, *a): return False

    def remap(self, tape, f):
        for n in ('cur_start', 'prev_start', 'last_sep', 'end'):
            if getattr(self, n) is not None: setattr(self, n, f(getattr(self, n)))

    def advance(self, ex, st):
        if self.bad: raise Found('tokeniser-output', '?', self.bad)

    def needs(self, st):
        return None if self.expected() is not None else 'T'

    def key(self, st, scan):
        for n in ('cur_start', 'prev_start', 'last_sep', 'end'):
            if getattr(self, n) is not None: scan(('p', 'T', getattr(self, n)))
        return lambda cv: (self.nsep, self.after, self.last_empty, self.last_sep_written, self.nstored, self.nwritten,
                           tuple(None if getattr(self, n) is None else cv(('p', 'T', getattr(self, n))) for n in ('cur_start', 'prev_start', 'last_sep', 'end')))


def saturation_bound(P, roots):
    """1 + the largest small integer constant any function reachable from roots compares against (counters above it behave alike)"""
    m = 4
    for n in P.reachable_from(list(roots)):
        f = P.defined.get(n)
        if f is None: continue
        for i in f.all_insts():
            if i.op == 'icmp':
                for v in i.ops:
                    if v['k'] == 'c' and 0 < v['v'] < 64: m = max(m, v['v'])
    return m + 2


class LazyMonitor:
    """reference behaviour of the lazy normaliser front end utf8_nfkd_lazy(str, norm): if a non-ASCII byte occurs among the first size-1 bytes of the
    string (before its terminator) the injected normaliser is called once with (str, norm) and its result returned; otherwise the bytes up to the
    terminator - at most size-1 of them - are copied to norm in order, norm is terminated there, and their number is returned"""
    outputs = ('norm',)

    def __init__(self, size, dep='u8_nfkd'):
        self.size = size; self.dep = dep; self.fed = 0; self.expect_call = False; self.len = None; self.ncopied = 0; self.next_pos = 0
        self.term = None; self.called = 0; self.bad = None; self.readonly = {'T'}

    def clone(self):
        m = LazyMonitor(self.size, self.dep); m.__dict__.update(self.__dict__)
        return m

    def feed(self, tape, pos, cls):
        if self.len is not None: return
        if cls == Z: self.len = self.fed; return
        if is_high(cls) and self.fed < self.size - 1: self.expect_call = True
        self.fed += 1

    def wrote(self, *a): pass

    def stored(self, obj, pos, v, inst):
        if obj != 'norm': return
        if v[0] == 'b' and not bchain(v) and v[1] == ('T', self.next_pos, 0) and pos == self.ncopied and self.term is None:
            self.ncopied += 1; self.next_pos += 1
        elif v[0] == 'c' and v[1] == 0 and self.term is None:
            self.term = pos
        elif not self.bad:
            self.bad = 'norm[%d] receives %s: the copy is not byte k of the input to byte k of the output followed by one terminator' % (pos, v[0])

    def call(self, ex, st, fr, inst, target, args):
        if target == ('dep', self.dep):
            ok = len(args) >= 2 and args[0] == ('p', 'T', 0) and args[1] == ('p', 'norm', 0)
            if not ok and not self.bad: self.bad = 'the normaliser is not called with (str, norm)'
            self.called += 1
            fr.regs[inst.id] = ('sym', 'normaliser.len')
            return True
        return False

    def remap(self, tape, f):
        self.next_pos = f(self.next_pos)

    def advance(self, ex, st):
        if self.bad: raise Found('lazy-normaliser', '?', self.bad)

    def decided(self):
        return self.expect_call or self.len is not None or self.fed >= self.size - 1

    def needs(self, st):
        return None if self.decided() else 'T'

    def key(self, st, scan):
        scan(('p', 'T', self.next_pos))
        return lambda cv: (self.fed, self.expect_call, self.len, self.ncopied, self.term, self.called, cv(('p', 'T', self.next_pos)))


class WriterMonitor:
    """reference behaviour of the phrase writer: the bytes of the source string before its terminator are copied, in order, to consecutive bytes of the
    output starting where the cursor pointed; nothing else is written to the output"""
    outputs = ('out',)

    def __init__(self):
        self.fed = 0; self.len = None; self.ncopied = 0; self.next_pos = 0; self.bad = None; self.readonly = {'T'}; self.base = 0

    def clone(self):
        m = WriterMonitor(); m.__dict__.update(self.__dict__)
        return m

    def feed(self, tape, pos, cls):
        if self.len is not None: return
        if cls == Z: self.len = self.fed
        else: self.fed += 1

    def wrote(self, *a): pass

    def stored(self, obj, pos, v, inst):
        if obj != 'out': return
        if v[0] == 'b' and not bchain(v) and v[1] == ('T', self.next_pos, 0) and pos == self.base + self.ncopied:
            self.ncopied += 1; self.next_pos += 1
        elif not self.bad:
            self.bad = 'out[%d] receives %s: not byte k of the source to byte k of the output' % (pos, v[0])

    def call(self, *a): return False
    def remap(self, tape, f): self.next_pos = f(self.next_pos)
    def advance(self, ex, st):
        if self.bad: raise Found('writer-output', '?', self.bad)
    def needs(self, st): return None if self.len is not None else 'T'
    def key(self, st, scan):
        scan(('p', 'T', self.next_pos))
        return lambda cv: (self.fed, self.len, self.ncopied, cv(('p', 'T', self.next_pos)))
