#!/bin/sh
# Builds /repo with its own CMake files (no verification guard exists; nothing is enabled) and runs the pinned suite.
set -e
B=$(mktemp -d /tmp/psa-baseline.XXXXXX)
trap 'rm -rf "$B"' EXIT
cmake -G Ninja -S /repo -B "$B" -DCMAKE_BUILD_TYPE=RelWithDebInfo >/dev/null
cmake --build "$B" >/dev/null
"$B/polyseed-tests"
