#!/usr/bin/env python3
"""Regenerates MANIFEST.json from the registry in psa/props.py (single source of truth for what is claimed)."""
import json, os, sys
sys.path.insert(0, os.path.dirname(os.path.abspath(__file__)))
from psa import props
from psa.manifest_text import TEXT, NOT_APPLICABLE

props_all = [json.loads(l)['id'] for l in open(os.path.join(os.path.dirname(__file__), 'properties.jsonl'))]
checks = []
for pid in sorted(props.REGISTRY):
    ent = props.REGISTRY[pid]; t = TEXT[pid]
    checks.append({
        'property_id': pid,
        'quick_cmd': './check %s --tier quick' % pid,
        'thorough_cmd': './check %s --tier thorough' % pid,
        'evidence_file': 'evidence/%s.json' % pid,
        'replay_cmd_template': './check %s --replay {path}' % pid,
        'engine': 'psa',
        'level_claimed': {'category': ent['level'], 'text': t['level_text'], 'design_ref': 'DESIGN.md section 4, ' + pid},
        'level_note': t['level_note'],
        'technique': t['technique'],
    })
na = [{'property_id': p, 'reason': NOT_APPLICABLE.get(p, 'check not built yet in this session (static rule designed in DESIGN.md section 4; not claimed until implemented)')}
      for p in props_all if p not in props.REGISTRY]
m = {
    'version': 1,
    'setup_cmd': 'make -C /verif/tools',
    'hooks': {'guard': 'POLYSEED_VERIF', 'enable': 'none: every engine analyses the unmodified sources; no hook commits exist',
              'baseline_off_cmd': 'sh /verif/baseline.sh', 'source_commits': [], 'add_only': True},
    'engines': [{'name': 'psa', 'path': 'psa/', 'serves_properties': sorted(props.REGISTRY),
                 'kind_free_text': 'custom static analysis over clang-14 LLVM IR of /repo (facts extracted by tools/irfacts.cc): '
                                   'call graph with dependency-table calls resolved, CFG path enumeration and typestate, dominance / '
                                   'must-pass-through, inclusion-based points-to and effect analysis, secret-taint summaries, '
                                   'bit-provenance abstract interpretation, constant-table analysis; no code of /repo is executed'}],
    'checks': checks,
    'not_applicable': na,
    'notes': 'All checks are static (no execution of the library, no solver). exit 2 = ANALYSIS-BROKEN (anchor lost / vacuous rule), never a pass.',
}
json.dump(m, open(os.path.join(os.path.dirname(__file__), 'MANIFEST.json'), 'w'), indent=1)
print('MANIFEST.json: %d checks, %d not applicable' % (len(checks), len(na)))
