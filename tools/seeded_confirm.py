#!/usr/bin/env python3
"""Confirm a sub-agent mutant and file it under /verif/seeded/<id>/.

usage: seeded_confirm.py <mutant dir with patch.diff, run.sh, demo.*, notes.md> <property id> <seeded id>

Steps (all in a scratch git worktree of /repo's HEAD under /tmp, removed afterwards):
  1. patch applies, library builds, pinned suite passes with the patch
  2. the demonstration (run.sh <tree>) fails with the patch
  3. the demonstration passes on the clean tree
Only then is /verif/seeded/<id>/ written (patch.diff, demo files, run.sh, notes.md, meta.json).
"""
import sys, os, subprocess, shutil, json, tempfile, time

def sh(cmd, **kw):
    return subprocess.run(cmd, shell=True, stdout=subprocess.PIPE, stderr=subprocess.STDOUT, text=True, errors='replace', **kw)

def main():
    src, pid, sid = sys.argv[1:4]
    wt = tempfile.mkdtemp(prefix='psa-seed-')
    os.rmdir(wt)
    log = []
    ok = False
    try:
        r = sh('git -C /repo worktree add --detach %s HEAD' % wt); log.append(r.stdout)
        head = sh('git -C /repo rev-parse --short HEAD').stdout.strip()
        r = sh('git -C %s apply --3way %s/patch.diff || (cd %s && patch -p1 --fuzz=3 < %s/patch.diff)' % (wt, src, wt, src))
        log.append(r.stdout)
        if r.returncode != 0:
            print('PATCH-FAILED', sid); print(r.stdout[-1500:]); return 3
        sh('git -C %s reset -q' % wt)
        diff = sh('git -C %s diff' % wt).stdout
        b = wt + '/_b'
        r = sh('cmake -G Ninja -S %s -B %s -DCMAKE_BUILD_TYPE=RelWithDebInfo >/dev/null && cmake --build %s 2>&1 | tail -3 && %s/polyseed-tests | tail -2' % (wt, b, b, b))
        suite_ok = 'All tests were successful' in r.stdout
        shutil.rmtree(b, ignore_errors=True)
        if not suite_ok:
            print('SUITE-FAILS-WITH-PATCH', sid); print(r.stdout[-1500:]); return 3
        t = time.time()
        r1 = sh('sh %s/run.sh %s' % (src, wt), timeout=1800)
        mut_rc = r1.returncode
        sh('git -C %s checkout -- . && git -C %s clean -fdq' % (wt, wt))
        r2 = sh('sh %s/run.sh %s' % (src, wt), timeout=1800)
        clean_rc = r2.returncode
        if mut_rc == 0 or clean_rc != 0:
            print('DEMO-NOT-CONFIRMED', sid, 'mutant rc', mut_rc, 'clean rc', clean_rc)
            print(r1.stdout[-800:]); print('---clean---'); print(r2.stdout[-800:]); return 3
        dst = '/verif/seeded/' + sid
        os.makedirs(dst, exist_ok=True)
        open(dst + '/patch.diff', 'w').write(diff)
        for f in os.listdir(src):
            if f != 'patch.diff' and os.path.isfile(os.path.join(src, f)) and os.path.getsize(os.path.join(src, f)) < 300000:
                shutil.copy(os.path.join(src, f), dst)
        notes = open(src + '/notes.md').read() if os.path.exists(src + '/notes.md') else ''
        meta = {'id': sid, 'breaks_property': pid, 'base_commit': head,
                'needs_to_manifest': 'see notes.md',
                'confirmed': {'suite_passes_with_patch': True, 'demo_rc_with_patch': mut_rc, 'demo_rc_clean': clean_rc,
                              'demo_tail_with_patch': r1.stdout[-600:], 'seconds': round(time.time() - t, 1)},
                'what_i_ran': ['git worktree add <scratch> HEAD; git apply patch.diff', 'cmake -G Ninja ... && polyseed-tests (All tests were successful)',
                               'sh run.sh <scratch>  (non-zero with patch)', 'git checkout -- . ; sh run.sh <scratch> (zero on clean tree)'],
                'detected_by': None}
        json.dump(meta, open(dst + '/meta.json', 'w'), indent=1)
        print('CONFIRMED', sid, 'mutant rc', mut_rc, 'clean rc', clean_rc)
        ok = True
    finally:
        sh('git -C /repo worktree remove --force %s' % wt)
        shutil.rmtree(wt, ignore_errors=True)
    return 0 if ok else 3

if __name__ == '__main__':
    sys.exit(main())
