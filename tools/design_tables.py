#!/usr/bin/env python3
"""Regenerates the 'seeded changes' and 'equivalents' tables of DESIGN.md (between the BEGIN/END markers) from seeded/RESULTS.json."""
import json, os, re, sys
V = os.path.dirname(os.path.dirname(os.path.abspath(__file__)))
res = json.load(open(V + '/seeded/RESULTS.json'))
rows = []
for sid in sorted(res):
    d = V + '/seeded/' + sid
    if not os.path.exists(d + '/patch.diff'): continue
    notes = open(d + '/notes.md', errors='replace').read() if os.path.exists(d + '/notes.md') else ''
    title = ''
    for l in notes.splitlines():
        l = l.strip().lstrip('#').strip()
        if len(l) > 12: title = l; break
    title = re.sub(r'\s+', ' ', title)[:110].replace('|', '/')
    files = sorted(set(re.findall(r'^\+\+\+ b/(\S+)', open(d + '/patch.diff', errors='replace').read(), re.M)))
    own = sid.split('-')[0]
    det = sorted(p for p, v in res[sid].items() if v['exit'] == 1 and '@' not in p)
    det_t = sorted(p.split('@')[0] for p, v in res[sid].items() if v['exit'] == 1 and '@' in p and p.split('@')[0] not in det)
    brk = sorted(p for p, v in res[sid].items() if v['exit'] == 2 and '@' not in p)
    rules = []
    for p in ([own] if own in det else ([own + '@thorough'] if own in det_t else det[:1])):
        for r in res[sid][p]['rules'][:1]:
            m = re.match(r'rule (\S+) at (\S+)', r)
            if m: rules.append('%s:%s @ %s' % (p, m.group(1), m.group(2)))
    rows.append((sid, title, ','.join(f.replace('src/', '') for f in files), 'yes' if own in det else ('yes (thorough tier)' if own in det_t else ('exit 2' if own in brk else 'NO')), ' '.join(det + [x + '(thorough)' for x in det_t]) or '-', '; '.join(rules)))
out = ['| id | change (from the sub-agent\'s notes) | files | own property fires | all checks that report it | first report of the owning (or first) check |', '|---|---|---|---|---|---|']
for r in rows: out.append('| ' + ' | '.join(r) + ' |')
n = len(rows); own_yes = sum(1 for r in rows if r[3].startswith('yes')); anyd = sum(1 for r in rows if r[4] != '-')
out.append('')
out.append('%d confirmed seeded changes; %d reported by the check of the property they were written against, %d reported by at least one check.' % (n, own_yes, anyd))
eq = V + '/selftest/equivalents/RESULTS.json'
if os.path.exists(eq):
    e = json.load(open(eq))
    out.append('')
    out.append('| behaviour-preserving edit | checks silent (exit 0) | false alarms | exit 2 |')
    out.append('|---|---|---|---|')
    for k in sorted(e):
        e[k] = {p_: v_ for p_, v_ in e[k].items() if '@' not in p_}
        if not os.path.exists(V + '/selftest/equivalents/' + k + '.diff'): continue
        out.append('| %s | %d | %s | %s |' % (k, sum(1 for v in e[k].values() if v['exit'] == 0), ' '.join(sorted(p for p, v in e[k].items() if v['exit'] == 1)) or '-',
                                             ' '.join(sorted(p for p, v in e[k].items() if v['exit'] == 2)) or '-'))
txt = '\n'.join(out)
p = V + '/DESIGN.md'
s = open(p).read()
a = s.index('<!-- BEGIN SEEDED TABLE -->'); b = s.index('<!-- END SEEDED TABLE -->')
s = s[:a] + '<!-- BEGIN SEEDED TABLE -->\n' + txt + '\n' + s[b:]
open(p, 'w').write(s)
print('tables regenerated: %d seeded, own-detected %d' % (n, own_yes))
