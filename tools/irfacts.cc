// irfacts: dump an LLVM-14 module (bitcode or textual IR) as JSON facts for the
// Python rule engines in /verif/psa.  No analysis is done here: the tool only
// serialises what the compiler front end produced (types with data-layout
// offsets, debug-info member names, globals with decoded constant initialisers,
// functions -> blocks -> instructions with operands, widths and !dbg lines).
//
// usage: irfacts <module.{bc,ll}> > facts.json

#include "llvm/IR/Constants.h"
#include "llvm/IR/DataLayout.h"
#include "llvm/IR/DebugInfoMetadata.h"
#include "llvm/IR/DerivedTypes.h"
#include "llvm/IR/Function.h"
#include "llvm/IR/GetElementPtrTypeIterator.h"
#include "llvm/IR/CFG.h"
#include "llvm/IR/DebugInfo.h"
#include "llvm/IR/GlobalVariable.h"
#include "llvm/IR/InlineAsm.h"
#include "llvm/IR/Instructions.h"
#include "llvm/IR/IntrinsicInst.h"
#include "llvm/IR/LLVMContext.h"
#include "llvm/IR/Module.h"
#include "llvm/IR/Operator.h"
#include "llvm/IRReader/IRReader.h"
#include "llvm/Support/SourceMgr.h"
#include "llvm/Support/raw_ostream.h"

#include <map>
#include <set>
#include <string>
#include <vector>

using namespace llvm;

static std::string esc(StringRef s) {
  std::string o;
  for (unsigned char c : s) {
    if (c == '"' || c == '\\') { o += '\\'; o += (char)c; }
    else if (c < 0x20 || c >= 0x7f) {
      char b[8]; snprintf(b, sizeof b, "\\u%04x", c); o += b;
    } else o += (char)c;
  }
  return o;
}
static std::string q(StringRef s) { return "\"" + esc(s) + "\""; }

static std::string tyStr(Type *t) {
  std::string s; raw_string_ostream os(s);
  t->print(os, false, true);
  return os.str();
}

struct Ctx {
  const DataLayout *DL;
  std::map<const Value *, unsigned> id; // per function instruction ids
  std::map<const BasicBlock *, unsigned> bbid;
};

static std::string hexbytes(StringRef s) {
  static const char *h = "0123456789abcdef";
  std::string o;
  for (unsigned char c : s) { o += h[c >> 4]; o += h[c & 15]; }
  return o;
}

// A pointer-valued constant expressed as (base global/function, byte offset)
static bool ptrConst(const Constant *c, const DataLayout &DL, const GlobalValue *&base, int64_t &off) {
  APInt o(DL.getIndexSizeInBits(0), 0);
  const Value *b = c->stripAndAccumulateConstantOffsets(DL, o, true);
  if (auto *gv = dyn_cast<GlobalValue>(b)) { base = gv; off = o.getSExtValue(); return true; }
  return false;
}

static std::string constTree(const Constant *c, const DataLayout &DL);

static std::string valref(const Value *v, Ctx &cx) {
  if (auto *ci = dyn_cast<ConstantInt>(v)) {
    std::string s = "{\"k\":\"c\",\"bits\":" + std::to_string(ci->getBitWidth()) + ",\"v\":";
    SmallString<40> str; ci->getValue().toStringUnsigned(str);
    s += str.str().str() + "}";
    return s;
  }
  if (isa<ConstantPointerNull>(v)) return "{\"k\":\"null\"}";
  if (isa<UndefValue>(v)) return "{\"k\":\"undef\"}";
  if (auto *a = dyn_cast<Argument>(v)) return "{\"k\":\"a\",\"n\":" + std::to_string(a->getArgNo()) + "}";
  if (auto *i = dyn_cast<Instruction>(v)) {
    auto it = cx.id.find(i);
    return "{\"k\":\"i\",\"id\":" + std::to_string(it == cx.id.end() ? 999999u : it->second) + "}";
  }
  if (auto *f = dyn_cast<Function>(v)) return "{\"k\":\"f\",\"name\":" + q(f->getName()) + "}";
  if (auto *g = dyn_cast<GlobalVariable>(v)) return "{\"k\":\"g\",\"name\":" + q(g->getName()) + ",\"off\":0}";
  if (auto *bb = dyn_cast<BasicBlock>(v)) return "{\"k\":\"bb\",\"id\":" + std::to_string(cx.bbid[bb]) + "}";
  if (auto *c = dyn_cast<Constant>(v)) {
    if (c->getType()->isPointerTy()) {
      const GlobalValue *b; int64_t off;
      if (ptrConst(c, *cx.DL, b, off)) {
        if (isa<Function>(b)) return "{\"k\":\"f\",\"name\":" + q(b->getName()) + "}";
        return "{\"k\":\"g\",\"name\":" + q(b->getName()) + ",\"off\":" + std::to_string(off) + "}";
      }
    }
    if (auto *ce = dyn_cast<ConstantExpr>(c)) {
      std::string s = "{\"k\":\"ce\",\"op\":" + q(ce->getOpcodeName()) + ",\"ops\":[";
      for (unsigned i = 0; i < ce->getNumOperands(); i++) { if (i) s += ","; s += valref(ce->getOperand(i), cx); }
      return s + "]}";
    }
    return "{\"k\":\"const\",\"tree\":" + constTree(c, *cx.DL) + "}";
  }
  if (isa<MetadataAsValue>(v)) return "{\"k\":\"md\"}";
  if (isa<InlineAsm>(v)) return "{\"k\":\"asm\"}";
  return "{\"k\":\"other\"}";
}

static std::string constTree(const Constant *c, const DataLayout &DL) {
  Type *t = c->getType();
  uint64_t size = t->isSized() ? DL.getTypeAllocSize(t).getFixedSize() : 0;
  if (auto *ci = dyn_cast<ConstantInt>(c)) {
    SmallString<40> str; ci->getValue().toStringUnsigned(str);
    return "{\"k\":\"int\",\"bits\":" + std::to_string(ci->getBitWidth()) + ",\"size\":" + std::to_string(size) + ",\"v\":" + str.str().str() + "}";
  }
  if (isa<ConstantAggregateZero>(c) || isa<ConstantPointerNull>(c) )
    return "{\"k\":\"zero\",\"size\":" + std::to_string(size) + "}";
  if (isa<UndefValue>(c)) return "{\"k\":\"undef\",\"size\":" + std::to_string(size) + "}";
  if (auto *cda = dyn_cast<ConstantDataSequential>(c)) {
    if (cda->getElementType()->isIntegerTy(8))
      return "{\"k\":\"bytes\",\"size\":" + std::to_string(size) + ",\"hex\":\"" + hexbytes(cda->getRawDataValues()) + "\"}";
    std::string s = "{\"k\":\"array\",\"size\":" + std::to_string(size) + ",\"esize\":" +
                    std::to_string(DL.getTypeAllocSize(cda->getElementType()).getFixedSize()) + ",\"elems\":[";
    for (unsigned i = 0; i < cda->getNumElements(); i++) { if (i) s += ","; s += constTree(cda->getElementAsConstant(i), DL); }
    return s + "]}";
  }
  if (auto *ca = dyn_cast<ConstantArray>(c)) {
    std::string s = "{\"k\":\"array\",\"size\":" + std::to_string(size) + ",\"esize\":" +
                    std::to_string(DL.getTypeAllocSize(ca->getType()->getElementType()).getFixedSize()) + ",\"elems\":[";
    for (unsigned i = 0; i < ca->getNumOperands(); i++) { if (i) s += ","; s += constTree(ca->getOperand(i), DL); }
    return s + "]}";
  }
  if (auto *cs = dyn_cast<ConstantStruct>(c)) {
    const StructLayout *sl = DL.getStructLayout(cs->getType());
    std::string s = "{\"k\":\"struct\",\"size\":" + std::to_string(size) + ",\"ty\":" + q(tyStr(t)) + ",\"fields\":[";
    for (unsigned i = 0; i < cs->getNumOperands(); i++) {
      if (i) s += ",";
      s += "{\"off\":" + std::to_string(sl->getElementOffset(i)) + ",\"v\":" + constTree(cs->getOperand(i), DL) + "}";
    }
    return s + "]}";
  }
  if (t->isPointerTy()) {
    const GlobalValue *b; int64_t off;
    if (ptrConst(c, DL, b, off)) {
      return std::string("{\"k\":\"") + (isa<Function>(b) ? "fref" : "gref") + "\",\"size\":" + std::to_string(size) +
             ",\"name\":" + q(b->getName()) + ",\"off\":" + std::to_string(off) + "}";
    }
  }
  return "{\"k\":\"unknown\",\"size\":" + std::to_string(size) + "}";
}

static void dbgloc(const Instruction &I, std::string &s) {
  if (const DebugLoc &dl = I.getDebugLoc()) {
    s += ",\"line\":" + std::to_string(dl.getLine()) + ",\"col\":" + std::to_string(dl.getCol());
    if (auto *sc = dyn_cast_or_null<DIScope>(dl.getScope())) s += ",\"file\":" + q(sc->getFilename());
    if (DILocation *ia = dl.getInlinedAt()) s += ",\"inl_line\":" + std::to_string(ia->getLine());
  }
}

static unsigned bitsOf(Type *t, const DataLayout &DL) {
  if (t->isIntegerTy()) return t->getIntegerBitWidth();
  if (t->isPointerTy()) return DL.getPointerSizeInBits();
  if (t->isSized() && !t->isVoidTy()) return DL.getTypeSizeInBits(t).getFixedSize();
  return 0;
}

static void emitDITypes(Module &M, raw_ostream &os) {
  DebugInfoFinder F; F.processModule(M);
  std::set<std::string> seen;
  bool first = true;
  os << "\"ditypes\":{";
  for (DIType *t : F.types()) {
    if (auto *dt = dyn_cast<DIDerivedType>(t)) {
      if (dt->getTag() == dwarf::DW_TAG_typedef && !dt->getName().empty()) {
        DIType *b = dt->getBaseType();
        while (b && isa<DIDerivedType>(b) && cast<DIDerivedType>(b)->getTag() == dwarf::DW_TAG_typedef) b = cast<DIDerivedType>(b)->getBaseType();
        auto *at = dyn_cast_or_null<DICompositeType>(b);
        if (at && at->getTag() == dwarf::DW_TAG_array_type) {
          std::string nm = "typedef:" + dt->getName().str();
          if (seen.insert(nm).second) {
            if (!first) os << ","; first = false;
            os << q(nm) << ":{\"tag\":\"array_typedef\",\"size_bits\":" << at->getSizeInBits() << ",\"members\":[]}";
          }
        }
      }
      continue;
    }
    auto *ct = dyn_cast<DICompositeType>(t);
    if (!ct) continue;
    if (ct->getTag() != dwarf::DW_TAG_structure_type && ct->getTag() != dwarf::DW_TAG_enumeration_type) continue;
    if (ct->getName().empty() || ct->isForwardDecl()) continue;
    std::string nm = ct->getName().str();
    if (!seen.insert(nm).second) continue;
    if (!first) os << ","; first = false;
    os << q(nm) << ":{\"tag\":" << q(ct->getTag() == dwarf::DW_TAG_structure_type ? "struct" : "enum")
       << ",\"size_bits\":" << ct->getSizeInBits() << ",\"members\":[";
    bool f2 = true;
    for (DINode *e : ct->getElements()) {
      if (auto *m = dyn_cast<DIDerivedType>(e)) {
        if (!f2) os << ","; f2 = false;
        os << "{\"name\":" << q(m->getName()) << ",\"off_bits\":" << m->getOffsetInBits() << ",\"size_bits\":" << m->getSizeInBits() << "}";
      } else if (auto *en = dyn_cast<DIEnumerator>(e)) {
        if (!f2) os << ","; f2 = false;
        os << "{\"name\":" << q(en->getName()) << ",\"value\":" << en->getValue().getSExtValue() << "}";
      }
    }
    os << "]}";
  }
  os << "},\n";
}

int main(int argc, char **argv) {
  if (argc < 2) { errs() << "usage: irfacts module\n"; return 2; }
  LLVMContext C; SMDiagnostic Err;
  std::unique_ptr<Module> M = parseIRFile(argv[1], Err, C);
  if (!M) { Err.print("irfacts", errs()); return 2; }
  const DataLayout &DL = M->getDataLayout();
  raw_ostream &os = outs();
  os << "{\"datalayout\":" << q(DL.getStringRepresentation()) << ",\"triple\":" << q(M->getTargetTriple()) << ",\n";

  // struct types
  os << "\"structs\":{";
  bool first = true;
  for (StructType *st : M->getIdentifiedStructTypes()) {
    if (st->isOpaque()) continue;
    if (!first) os << ","; first = false;
    const StructLayout *sl = DL.getStructLayout(st);
    os << q(st->getName()) << ":{\"size\":" << sl->getSizeInBytes() << ",\"fields\":[";
    for (unsigned i = 0; i < st->getNumElements(); i++) {
      if (i) os << ",";
      Type *et = st->getElementType(i);
      os << "{\"off\":" << sl->getElementOffset(i) << ",\"size\":" << DL.getTypeAllocSize(et).getFixedSize() << ",\"ty\":" << q(tyStr(et)) << "}";
    }
    os << "]}";
  }
  os << "},\n";
  emitDITypes(*M, os);

  // globals
  os << "\"globals\":[";
  first = true;
  for (GlobalVariable &g : M->globals()) {
    if (!first) os << ",\n"; first = false;
    Type *vt = g.getValueType();
    os << "{\"name\":" << q(g.getName()) << ",\"ty\":" << q(tyStr(vt)) << ",\"size\":" << (vt->isSized() ? DL.getTypeAllocSize(vt).getFixedSize() : 0)
       << ",\"constant\":" << (g.isConstant() ? "true" : "false") << ",\"linkage\":" << (g.hasLocalLinkage() ? "\"local\"" : "\"external\"") << ",\"visibility\":" << (g.hasHiddenVisibility() ? "\"hidden\"" : "\"default\"")
       << ",\"decl\":" << (g.isDeclaration() ? "true" : "false") << ",\"tls\":" << (g.isThreadLocal() ? "true" : "false");
    SmallVector<DIGlobalVariableExpression *, 1> gves; g.getDebugInfo(gves);
    if (!gves.empty()) {
      DIGlobalVariable *dv = gves[0]->getVariable();
      os << ",\"src_name\":" << q(dv->getName()) << ",\"file\":" << q(dv->getFilename()) << ",\"line\":" << dv->getLine();
      if (auto *sc = dyn_cast_or_null<DISubprogram>(dv->getScope())) os << ",\"in_function\":" << q(sc->getName());
    }
    if (g.hasInitializer()) os << ",\"init\":" << constTree(g.getInitializer(), DL);
    os << "}";
  }
  os << "],\n";

  // functions
  os << "\"functions\":[";
  first = true;
  for (Function &F : *M) {
    if (!first) os << ",\n"; first = false;
    os << "{\"name\":" << q(F.getName()) << ",\"decl\":" << (F.isDeclaration() ? "true" : "false")
       << ",\"linkage\":" << (F.hasLocalLinkage() ? "\"local\"" : "\"external\"")
       << ",\"visibility\":" << (F.hasHiddenVisibility() ? "\"hidden\"" : "\"default\"")
       << ",\"intrinsic\":" << (F.isIntrinsic() ? "true" : "false")
       << ",\"noreturn\":" << (F.doesNotReturn() ? "true" : "false")
       << ",\"varargs\":" << (F.isVarArg() ? "true" : "false")
       << ",\"ret_ty\":" << q(tyStr(F.getReturnType())) << ",\"ret_bits\":" << bitsOf(F.getReturnType(), DL);
    if (DISubprogram *sp = F.getSubprogram()) {
      os << ",\"file\":" << q(sp->getFilename()) << ",\"line\":" << sp->getLine();
      // which pointer parameters point to const-qualified data (from the subroutine type)
      if (DISubroutineType *stt = sp->getType()) {
        DITypeRefArray ta = stt->getTypeArray();
        os << ",\"param_const\":[";
        for (unsigned k = 1; k < ta.size(); k++) {
          if (k > 1) os << ",";
          DIType *t = ta[k];
          bool isconst = false;
          while (t && isa<DIDerivedType>(t) && (cast<DIDerivedType>(t)->getTag() == dwarf::DW_TAG_typedef || cast<DIDerivedType>(t)->getTag() == dwarf::DW_TAG_restrict_type ||
                 cast<DIDerivedType>(t)->getTag() == dwarf::DW_TAG_const_type || cast<DIDerivedType>(t)->getTag() == dwarf::DW_TAG_volatile_type)) t = cast<DIDerivedType>(t)->getBaseType();
          if (auto *pt = dyn_cast_or_null<DIDerivedType>(t)) {
            if (pt->getTag() == dwarf::DW_TAG_pointer_type) {
              DIType *b = pt->getBaseType();
              while (b && isa<DIDerivedType>(b)) {
                auto *bd = cast<DIDerivedType>(b);
                if (bd->getTag() == dwarf::DW_TAG_const_type) { isconst = true; break; }
                if (bd->getTag() == dwarf::DW_TAG_typedef || bd->getTag() == dwarf::DW_TAG_volatile_type) b = bd->getBaseType(); else break;
              }
            }
          }
          os << (isconst ? "true" : "false");
        }
        os << "]";
      }
    }
    os << ",\"params\":[";
    for (Argument &a : F.args()) {
      if (a.getArgNo()) os << ",";
      os << "{\"ty\":" << q(tyStr(a.getType())) << ",\"bits\":" << bitsOf(a.getType(), DL);
      if (a.hasByValAttr()) os << ",\"byval\":" << DL.getTypeAllocSize(a.getParamByValType()).getFixedSize() << ",\"byval_ty\":" << q(tyStr(a.getParamByValType()));
      if (a.hasStructRetAttr()) os << ",\"sret\":true";
      os << "}";
    }
    os << "]";
    if (F.isDeclaration()) { os << "}"; continue; }
    Ctx cx; cx.DL = &DL;
    unsigned n = 0, b = 0;
    for (BasicBlock &BB : F) { cx.bbid[&BB] = b++; for (Instruction &I : BB) cx.id[&I] = n++; }
    // dbg.declare names for allocas / params
    std::map<const Value *, std::pair<std::string, int>> varname; // name, arg no (0 = local)
    for (BasicBlock &BB : F) for (Instruction &I : BB)
      if (auto *dd = dyn_cast<DbgDeclareInst>(&I))
        if (dd->getAddress()) varname[dd->getAddress()] = {dd->getVariable()->getName().str(), (int)dd->getVariable()->getArg()};
    os << ",\"blocks\":[";
    for (BasicBlock &BB : F) {
      if (cx.bbid[&BB]) os << ",";
      os << "\n {\"id\":" << cx.bbid[&BB] << ",\"succs\":[";
      { bool f = true; for (BasicBlock *s : successors(&BB)) { if (!f) os << ","; f = false; os << cx.bbid[s]; } }
      os << "],\"insts\":[";
      bool fi = true;
      for (Instruction &I : BB) {
        if (isa<DbgInfoIntrinsic>(&I)) continue;
        if (!fi) os << ","; fi = false;
        std::string s = "\n  {\"id\":" + std::to_string(cx.id[&I]) + ",\"op\":" + q(I.getOpcodeName()) +
                        ",\"ty\":" + q(tyStr(I.getType())) + ",\"bits\":" + std::to_string(bitsOf(I.getType(), DL));
        dbgloc(I, s);
        if (auto *ai = dyn_cast<AllocaInst>(&I)) {
          Type *at = ai->getAllocatedType();
          s += ",\"alloc_ty\":" + q(tyStr(at)) + ",\"alloc_size\":" + std::to_string(DL.getTypeAllocSize(at).getFixedSize());
          s += std::string(",\"alloc_kind\":\"") + (at->isArrayTy() ? "array" : at->isStructTy() ? "struct" : at->isPointerTy() ? "ptr" : "scalar") + "\"";
          if (at->isArrayTy()) s += ",\"elem_size\":" + std::to_string(DL.getTypeAllocSize(at->getArrayElementType()).getFixedSize());
          auto it = varname.find(ai);
          if (it != varname.end()) { s += ",\"var\":" + q(it->second.first) + ",\"argno\":" + std::to_string(it->second.second); }
        } else if (auto *ic = dyn_cast<ICmpInst>(&I)) {
          s += ",\"pred\":" + q(CmpInst::getPredicateName(ic->getPredicate()));
          s += ",\"op_bits\":" + std::to_string(bitsOf(ic->getOperand(0)->getType(), DL));
        } else if (auto *gep = dyn_cast<GetElementPtrInst>(&I)) {
          s += ",\"src_ty\":" + q(tyStr(gep->getSourceElementType()));
          s += std::string(",\"inbounds\":") + (gep->isInBounds() ? "true" : "false");
          // decomposition into constant offset + variable (index * stride) terms
          int64_t coff = 0; std::string steps;
          std::string path; // struct field path for naming: list of {"struct":name,"field":i}
          gep_type_iterator gti = gep_type_begin(gep);
          for (unsigned k = 1; k < gep->getNumOperands(); ++k, ++gti) {
            Value *idx = gep->getOperand(k);
            if (StructType *st = gti.getStructTypeOrNull()) {
              unsigned fi2 = cast<ConstantInt>(idx)->getZExtValue();
              coff += DL.getStructLayout(st)->getElementOffset(fi2);
              if (!path.empty()) path += ",";
              path += "{\"struct\":" + q(st->hasName() ? st->getName() : "") + ",\"field\":" + std::to_string(fi2) + "}";
            } else {
              uint64_t stride = DL.getTypeAllocSize(gti.getIndexedType()).getFixedSize();
              if (auto *ci = dyn_cast<ConstantInt>(idx)) coff += ci->getSExtValue() * (int64_t)stride;
              else {
                if (!steps.empty()) steps += ",";
                steps += "{\"idx\":" + valref(idx, cx) + ",\"stride\":" + std::to_string(stride) + "}";
              }
            }
          }
          s += ",\"const_off\":" + std::to_string(coff) + ",\"var_steps\":[" + steps + "],\"field_path\":[" + path + "]";
          s += ",\"res_elem_size\":" + std::to_string(gep->getResultElementType()->isSized() ? DL.getTypeAllocSize(gep->getResultElementType()).getFixedSize() : 0);
        } else if (auto *cb = dyn_cast<CallBase>(&I)) {
          const Value *cv = cb->getCalledOperand()->stripPointerCasts();
          if (auto *cf = dyn_cast<Function>(cv)) {
            s += ",\"callee\":" + q(cf->getName());
            if (cf->doesNotReturn() || cb->doesNotReturn()) s += ",\"noreturn\":true";
          } else if (isa<InlineAsm>(cv)) s += ",\"callee_asm\":true";
          else s += ",\"callee_val\":" + valref(cv, cx);
          s += ",\"nargs\":" + std::to_string(cb->arg_size());
        } else if (auto *li = dyn_cast<LoadInst>(&I)) {
          s += ",\"size\":" + std::to_string(DL.getTypeStoreSize(li->getType()).getFixedSize());
          s += std::string(",\"volatile\":") + (li->isVolatile() ? "true" : "false");
          s += ",\"align\":" + std::to_string(li->getAlign().value());
        } else if (auto *si = dyn_cast<StoreInst>(&I)) {
          s += ",\"size\":" + std::to_string(DL.getTypeStoreSize(si->getValueOperand()->getType()).getFixedSize());
          s += ",\"val_bits\":" + std::to_string(bitsOf(si->getValueOperand()->getType(), DL));
          s += std::string(",\"volatile\":") + (si->isVolatile() ? "true" : "false");
          s += ",\"align\":" + std::to_string(si->getAlign().value());
        } else if (auto *ci2 = dyn_cast<CastInst>(&I)) {
          s += ",\"src_bits\":" + std::to_string(bitsOf(ci2->getSrcTy(), DL));
          s += ",\"src_ty\":" + q(tyStr(ci2->getSrcTy()));
        } else if (auto *phi = dyn_cast<PHINode>(&I)) {
          s += ",\"incoming\":[";
          for (unsigned k = 0; k < phi->getNumIncomingValues(); k++) {
            if (k) s += ",";
            s += "[" + valref(phi->getIncomingValue(k), cx) + "," + std::to_string(cx.bbid[phi->getIncomingBlock(k)]) + "]";
          }
          s += "]";
        } else if (auto *ev = dyn_cast<ExtractValueInst>(&I)) {
          s += ",\"indices\":[";
          for (unsigned k = 0; k < ev->getNumIndices(); k++) { if (k) s += ","; s += std::to_string(ev->getIndices()[k]); }
          s += "]";
        } else if (auto *iv = dyn_cast<InsertValueInst>(&I)) {
          s += ",\"indices\":[";
          for (unsigned k = 0; k < iv->getNumIndices(); k++) { if (k) s += ","; s += std::to_string(iv->getIndices()[k]); }
          s += "]";
        } else if (auto *sw = dyn_cast<SwitchInst>(&I)) {
          s += ",\"default\":" + std::to_string(cx.bbid[sw->getDefaultDest()]) + ",\"cases\":[";
          bool f = true;
          for (auto &c : sw->cases()) {
            if (!f) s += ","; f = false;
            SmallString<40> str; c.getCaseValue()->getValue().toStringUnsigned(str);
            s += "[" + str.str().str() + "," + std::to_string(cx.bbid[c.getCaseSuccessor()]) + "]";
          }
          s += "]";
        }
        s += ",\"ops\":[";
        unsigned nops = I.getNumOperands();
        if (auto *cb = dyn_cast<CallBase>(&I)) nops = cb->arg_size();
        for (unsigned k = 0; k < nops; k++) { if (k) s += ","; s += valref(I.getOperand(k), cx); }
        s += "]}";
        os << s;
      }
      os << "]}";
    }
    os << "]}";
  }
  os << "]}\n";
  return 0;
}
