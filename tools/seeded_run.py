#!/usr/bin/env python3
"""Run the registered checks against every confirmed seeded change (scratch copies of /repo's working tree, never /repo).

usage: seeded_run.py [--props C15,C16] [--ids C15-m1,...] [--tier quick]
Writes /verif/seeded/RESULTS.json (matrix: seeded id -> property -> exit code + violated rules) and updates meta.json.detected_by.
"""
import sys, os, json, subprocess, shutil, tempfile, argparse
from concurrent.futures import ThreadPoolExecutor
V = os.path.dirname(os.path.dirname(os.path.abspath(__file__)))
sys.path.insert(0, V)

def prep(sid, patch=None):
    d = tempfile.mkdtemp(prefix='psa-mut-%s-' % sid)
    for sub in ('src', 'include', 'tests'):
        shutil.copytree('/repo/' + sub, d + '/' + sub)
    shutil.copy('/repo/CMakeLists.txt', d)
    r = subprocess.run('patch -p1 --fuzz=3 -s < %s' % (patch or '%s/seeded/%s/patch.diff' % (V, sid)), shell=True, cwd=d, capture_output=True, text=True)
    if r.returncode != 0:
        shutil.rmtree(d); return None, r.stdout + r.stderr
    return d, ''

def run_one(args):
    sid, pid, tree, tier = args
    ev = tree + '/_ev'
    os.makedirs(ev, exist_ok=True)
    env = dict(os.environ, POLYSEED_TREE=tree, PSA_EVIDENCE_DIR=ev)
    r = subprocess.run([V + '/check', pid, '--tier', tier], capture_output=True, text=True, env=env, cwd=V)
    rules = []
    for l in r.stdout.splitlines():
        l = l.strip()
        if l.startswith('rule '):
            rules.append(l[:400])
    broken = [l for l in r.stdout.splitlines() if l.startswith('ANALYSIS-BROKEN')]
    return sid, pid, r.returncode, rules, broken

def equivalents(a, pids):
    d = V + '/selftest/equivalents'
    ids = a.ids.split(',') if a.ids else sorted(f[:-5] for f in os.listdir(d) if f.endswith('.diff'))
    trees = {}
    for sid in ids:
        t, err = prep(sid, patch='%s/%s.diff' % (d, sid))
        if t is None: print('PATCH DOES NOT APPLY:', sid, err[:200])
        else: trees[sid] = t
    jobs = [(sid, pid, trees[sid], a.tier) for sid in trees for pid in pids]
    res = {}
    try:
        with ThreadPoolExecutor(max_workers=a.workers) as ex:
            for sid, pid, rc, rules, broken in ex.map(run_one, jobs):
                res.setdefault(sid, {})[pid] = {'exit': rc, 'rules': rules, 'broken': broken}
    finally:
        for t in trees.values(): shutil.rmtree(t, ignore_errors=True)
    out = d + '/RESULTS.json'
    old = json.load(open(out)) if os.path.exists(out) else {}
    for sid in res: old.setdefault(sid, {}).update(res[sid])
    json.dump(old, open(out, 'w'), indent=1, sort_keys=True)
    bad = 0
    for sid in sorted(res):
        al = sorted(p for p, v in res[sid].items() if v['exit'] == 1); br = sorted(p for p, v in res[sid].items() if v['exit'] == 2)
        print('%-45s silent=%d%s%s' % (sid, sum(1 for v in res[sid].values() if v['exit'] == 0), '  FALSE-ALARM=' + ','.join(al) if al else '', '  exit2=' + ','.join(br) if br else ''))
        bad += len(al)
    return 1 if bad else 0


def main():
    ap = argparse.ArgumentParser()
    ap.add_argument('--props'); ap.add_argument('--ids'); ap.add_argument('--tier', default='quick')
    ap.add_argument('--own', action='store_true', help='run each seeded change against the check of the property it breaks only (fast regression run)')
    ap.add_argument('--workers', type=int, default=14)
    ap.add_argument('--equivalents', action='store_true', help='run the behaviour-preserving edits of selftest/equivalents: every check must stay silent')
    a = ap.parse_args()
    from psa import props
    pids = a.props.split(',') if a.props else sorted(props.REGISTRY)
    if a.equivalents:
        return equivalents(a, pids)
    ids = a.ids.split(',') if a.ids else sorted(d for d in os.listdir(V + '/seeded') if os.path.exists(V + '/seeded/' + d + '/patch.diff'))
    trees = {}
    for sid in ids:
        t, err = prep(sid)
        if t is None:
            print('PATCH DOES NOT APPLY to current /repo tree:', sid, err[:300])
        else:
            trees[sid] = t
    jobs = [(sid, pid, trees[sid], a.tier) for sid in trees for pid in pids if not a.own or pid == sid.split('-')[0]]
    res = {}
    try:
        with ThreadPoolExecutor(max_workers=a.workers) as ex:
            for sid, pid, rc, rules, broken in ex.map(run_one, jobs):
                res.setdefault(sid, {})[pid] = {'exit': rc, 'rules': rules, 'broken': broken}
    finally:
        for t in trees.values():
            shutil.rmtree(t, ignore_errors=True)
    out = V + '/seeded/RESULTS.json'
    old = json.load(open(out)) if os.path.exists(out) else {}
    suffix = '' if a.tier == 'quick' else '@' + a.tier
    for sid in res:
        old.setdefault(sid, {}).update({p + suffix: v for p, v in res[sid].items()})
    json.dump(old, open(out, 'w'), indent=1, sort_keys=True)
    for sid in sorted(res):
        det = sorted(p for p, v in old[sid].items() if v['exit'] == 1 and '@' not in p)
        brk = sorted(p for p, v in old[sid].items() if v['exit'] == 2 and '@' not in p)
        det_t = sorted(p.split('@')[0] for p, v in old[sid].items() if v['exit'] == 1 and '@' in p and p.split('@')[0] not in det)
        mp = V + '/seeded/' + sid + '/meta.json'
        if os.path.exists(mp):
            m = json.load(open(mp)); m['detected_by'] = det; m['analysis_broken_in'] = brk; m['detected_by_thorough_only'] = det_t
            json.dump(m, open(mp, 'w'), indent=1)
        det = sorted(set(det) | set(det_t))
        own = sid.split('-')[0]
        print('%-8s detected_by=%s%s%s' % (sid, ','.join(det) or '-', '  BROKEN(exit2)=' + ','.join(brk) if brk else '',
                                           '' if own in det or own not in pids else '   <-- own property check silent'))

if __name__ == '__main__':
    sys.exit(main() or 0)
